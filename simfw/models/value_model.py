"""Nested typed values, the walker decoder, and the documented builder unification (DESIGN.md 6.3, Appendix D).

Python representation of a value (used by generators, models and the decoded walker output alike):
    None | bool | int | float | complex | ("dt", int, format) | str | bytes | list
    ("rec", name|None, [(key, value), ...])  -- ordered fields
    ("tup", [value, ...])
bool is not int; ints and floats are kept apart by type.
"""
from __future__ import annotations

import json
import math


# ------------------------------------------------------------------------------------------------ walker decoding
def decode(obj):
    """JSON object produced by the native walker -> value."""
    if obj is None or obj is True or obj is False:
        return obj
    if isinstance(obj, int):
        return obj
    if isinstance(obj, list):
        return [decode(x) for x in obj]
    if isinstance(obj, dict):
        if "f" in obj:
            return float(obj["f"])
        if "c" in obj:
            return complex(float(obj["c"][0]), float(obj["c"][1]))
        if "dt" in obj:
            return ("dt", obj["dt"][0], obj["dt"][1])
        if "s" in obj:
            raw = obj["s"].encode("latin-1")
            try:
                return raw.decode("utf-8")
            except UnicodeDecodeError:
                return ("badutf8", raw)
        if "b" in obj:
            return obj["b"].encode("latin-1")
        if "r" in obj:
            name, fields = obj["r"]
            return ("rec", _utf8(name) if name is not None else None, [(_utf8(k), decode(v)) for k, v in fields])
        if "t" in obj:
            return ("tup", [decode(v) for v in obj["t"]])
        if "scalar" in obj:
            return ("scalar", decode(obj["scalar"]))
    raise ValueError("cannot decode %r" % (obj,))


def _utf8(s):
    """the walker writes bytes as latin-1 code points; names and keys are UTF-8"""
    try:
        return s.encode("latin-1").decode("utf-8")
    except (UnicodeDecodeError, UnicodeEncodeError):
        return s


def loads(text):
    if isinstance(text, bytes):
        text = text.decode("latin-1")
    return decode(json.loads(text))


# ------------------------------------------------------------------------------------------------ comparison
def same(a, b, numeric=False, lax_fields=False) -> bool:
    """Strict equality of values: bool is not int, int is not float, nan == nan, -0.0 != 0.0.
    numeric=True compares int and float by numeric value (used only in histories with `clear`);
    lax_fields=True lets a record carry extra fields whose value is None (same reason)."""
    if isinstance(b, tuple) and b and b[0] == "lax":
        # expected-side marker: the number type of this subtree is not determined by the documented rules
        return same(a, b[1], True, lax_fields)
    if isinstance(a, tuple) and a and a[0] == "lax":
        return same(a[1], b, True, lax_fields)
    if a is None or b is None:
        return a is None and b is None
    if isinstance(a, bool) or isinstance(b, bool):
        return isinstance(a, bool) and isinstance(b, bool) and a == b
    if isinstance(a, (int, float)) and isinstance(b, (int, float)):
        if type(a) is not type(b):
            if not numeric:
                return False
            fa, fb = float(a), float(b)
            return fa == fb or (math.isnan(fa) and math.isnan(fb))
        if isinstance(a, float):
            if math.isnan(a) or math.isnan(b):
                return math.isnan(a) and math.isnan(b)
            return a == b and math.copysign(1.0, a) == math.copysign(1.0, b)
        return a == b
    if isinstance(a, complex) or isinstance(b, complex):
        if numeric:
            a, b = complex(a), complex(b)
        if not (isinstance(a, complex) and isinstance(b, complex)):
            return False
        return same(a.real, b.real) and same(a.imag, b.imag)
    if isinstance(a, (str, bytes)) or isinstance(b, (str, bytes)):
        return type(a) is type(b) and a == b
    if isinstance(a, list) or isinstance(b, list):
        return isinstance(a, list) and isinstance(b, list) and len(a) == len(b) and \
            all(same(x, y, numeric, lax_fields) for x, y in zip(a, b))
    if isinstance(a, tuple) and isinstance(b, tuple) and a and b and a[0] == b[0]:
        if a[0] == "dt":
            return a == b
        if a[0] == "badutf8":
            return a == b
        if a[0] == "scalar":
            return same(a[1], b[1], numeric, lax_fields)
        if a[0] == "tup":
            return len(a[1]) == len(b[1]) and all(same(x, y, numeric, lax_fields) for x, y in zip(a[1], b[1]))
        if a[0] == "rec":
            if a[1] != b[1]:
                return False
            fa, fb = a[2], b[2]
            if not lax_fields:
                return len(fa) == len(fb) and all(ka == kb and same(va, vb, numeric, lax_fields)
                                                  for (ka, va), (kb, vb) in zip(fa, fb))
            da, db = dict(fa), dict(fb)
            for k in set(da) | set(db):
                if k in da and k in db:
                    if not same(da[k], db[k], numeric, lax_fields):
                        return False
                else:
                    if (da.get(k) if k in da else db.get(k)) is not None:
                        return False
            return True
    return False


def to_jsonable(v):
    """for logs / replay files (lossless enough to read)"""
    if v is None or isinstance(v, (bool, int, str)):
        return v
    if isinstance(v, float):
        return {"f": repr(v)}
    if isinstance(v, complex):
        return {"c": [repr(v.real), repr(v.imag)]}
    if isinstance(v, bytes):
        return {"b": v.hex()}
    if isinstance(v, list):
        return [to_jsonable(x) for x in v]
    if isinstance(v, tuple):
        if v[0] == "rec":
            return {"rec": v[1], "fields": [[k, to_jsonable(x)] for k, x in v[2]]}
        if v[0] == "tup":
            return {"tup": [to_jsonable(x) for x in v[1]]}
        if v[0] == "dt":
            return {"dt": [v[1], v[2]]}
        if v[0] == "scalar":
            return {"scalar": to_jsonable(v[1])}
        if v[0] == "badutf8":
            return {"badutf8": v[1].hex()}
        if v[0] in ("lax", "app"):
            return {v[0]: to_jsonable(v[1])}
    raise TypeError(type(v))


def from_jsonable(o):
    if o is None or isinstance(o, (bool, int, str)):
        return o
    if isinstance(o, list):
        return [from_jsonable(x) for x in o]
    if "f" in o:
        return float(o["f"])
    if "c" in o:
        return complex(float(o["c"][0]), float(o["c"][1]))
    if "b" in o:
        return bytes.fromhex(o["b"])
    if "rec" in o or "fields" in o:
        return ("rec", o["rec"], [(k, from_jsonable(x)) for k, x in o["fields"]])
    if "tup" in o:
        return ("tup", [from_jsonable(x) for x in o["tup"]])
    if "dt" in o:
        return ("dt", o["dt"][0], o["dt"][1])
    if "scalar" in o:
        return ("scalar", from_jsonable(o["scalar"]))
    raise TypeError(o)


# ------------------------------------------------------------------------------------------------ unification
class Position:
    """Type knowledge at one type position (options transparent)."""
    __slots__ = ("has_float", "has_complex", "app_float", "app_complex", "app_any", "item", "records", "tuples")

    def __init__(self):
        self.has_float = False      # a float arrived here through a builder call
        self.has_complex = False
        self.app_float = False      # ... only inside an element appended from another array
        self.app_complex = False
        self.app_any = False        # an appended element brought a type here that its value does not show (an empty list,
                                    # a None): the number type of everything at and below this position is undetermined
        self.item = None        # Position of list items
        self.records = {}       # name -> (field order list, {field: Position})
        self.tuples = {}        # arity -> [Position]

    def list_item(self):
        if self.item is None:
            self.item = Position()
        return self.item

    def record(self, name):
        if name not in self.records:
            self.records[name] = ([], {})
        return self.records[name]

    def record_field(self, name, key):
        order, pos = self.record(name)
        if key not in pos:
            order.append(key)
            pos[key] = Position()
        return pos[key]

    def tuple_slots(self, n):
        if n not in self.tuples:
            self.tuples[n] = [Position() for _ in range(n)]
        return self.tuples[n]


def absorb(P: Position, v, direct=True):
    """record that value v was appended at position P (recursively). direct=False: v is (part of) an element taken
    from another array by append/extend, whose number types merge with the builder's own only when the two
    layouts happen to be mergeable - so it only makes the number type at P undetermined."""
    if v is None and not direct:
        P.app_any = True
        return
    if v is None or isinstance(v, (bool, str, bytes)):
        return
    if isinstance(v, tuple) and v and v[0] == "app":
        absorb(P, v[1], False)
        return
    if isinstance(v, float):
        if direct:
            P.has_float = True
        else:
            P.app_float = True
    elif isinstance(v, complex):
        if direct:
            P.has_complex = True
        else:
            P.app_complex = True
    elif isinstance(v, int):
        pass
    elif isinstance(v, list):
        item = P.list_item()
        if not direct and not v:
            item.app_any = True
        for x in v:
            absorb(item, x, direct)
    elif isinstance(v, tuple):
        if v[0] == "rec":
            for k, x in v[2]:
                absorb(P.record_field(v[1], k), x, direct)
        elif v[0] == "tup":
            slots = P.tuple_slots(len(v[1]))
            for s, x in zip(slots, v[1]):
                absorb(s, x, direct)


def show(P: Position, v, lax_all=False):
    """the value as a snapshot must present it, given the type knowledge gathered so far."""
    lax_all = lax_all or P.app_any
    if v is None or isinstance(v, (bool, str, bytes)):
        return v
    if isinstance(v, tuple) and v and v[0] == "app":
        return ("lax", v[1])
    if isinstance(v, (int, float, complex)) and not isinstance(v, bool):
        out = v
        if P.has_complex:
            out = complex(v)
        elif P.has_float and isinstance(v, int):
            out = float(v)
        if lax_all or (P.app_complex and not isinstance(out, complex)) or (P.app_float and isinstance(out, int)):
            return ("lax", out)
        return out
    if isinstance(v, list):
        item = P.list_item()
        return [show(item, x, lax_all) for x in v]
    if isinstance(v, tuple):
        if v[0] == "rec":
            order, pos = P.record(v[1])
            have = dict(v[2])
            return ("rec", v[1], [(k, show(pos[k], have[k], lax_all) if k in have else None) for k in order])
        if v[0] == "tup":
            slots = P.tuple_slots(len(v[1]))
            return ("tup", [show(s, x, lax_all) for s, x in zip(slots, v[1])])
        return v
    raise TypeError(type(v))


def unify(values):
    root = Position()
    for v in values:
        absorb(root, v)
    return [show(root, v) for v in values]
