"""Strict RFC 8259 multi-document recogniser/decoder (DESIGN.md 8.3) and the framework's own JSON emitter.

parse_stream(data) -> Result(status, docs, reason, pos)
  status "ok"        : data is a sequence of k >= 0 complete JSON values separated by optional whitespace
         "malformed" : it is not (cut short or invalid)
         "gray"      : well-formed by the grammar but outside the property's domain or decided by the tokenizer
                       (which is a stub here): numbers outside int64/double, duplicate keys, lone surrogates,
                       invalid UTF-8, NUL inside a key
A NUL byte ends the stream (the tokenizer contract), so data is cut at the first NUL before anything else.
Values use the value_model representation; objects are unnamed records with ordered fields.
"""
from __future__ import annotations

import math
import re

WS = b" \t\n\r"


class Malformed(Exception):
    def __init__(self, reason, pos):
        Exception.__init__(self, reason)
        self.reason = reason
        self.pos = pos


class Gray(Exception):
    pass


class Result:
    def __init__(self, status, docs=None, reason=None, pos=None):
        self.status = status
        self.docs = docs or []
        self.reason = reason
        self.pos = pos

    def __repr__(self):
        return "Result(%s, %d docs, %s@%s)" % (self.status, len(self.docs), self.reason, self.pos)


class _P:
    def __init__(self, data):
        self.d = data
        self.i = 0
        self.gray = None
        self.uint64_ok = False

    def ws(self):
        d, n = self.d, len(self.d)
        while self.i < n and d[self.i] in WS:
            self.i += 1

    def value(self, depth=0):
        d = self.d
        if self.i >= len(d):
            raise Malformed("end of stream where a value is expected", self.i)
        c = d[self.i]
        if c == 0x5B:       # [
            self.i += 1
            out = []
            self.ws()
            if self.i < len(d) and d[self.i] == 0x5D:
                self.i += 1
                return out
            while True:
                self.ws()
                out.append(self.value(depth + 1))
                self.ws()
                if self.i >= len(d):
                    raise Malformed("end of stream inside an array", self.i)
                if d[self.i] == 0x2C:
                    self.i += 1
                    continue
                if d[self.i] == 0x5D:
                    self.i += 1
                    return out
                raise Malformed("expected ',' or ']'", self.i)
        if c == 0x7B:       # {
            self.i += 1
            fields = []
            seen = set()
            self.ws()
            if self.i < len(d) and d[self.i] == 0x7D:
                self.i += 1
                return ("rec", None, fields)
            while True:
                self.ws()
                if self.i >= len(d):
                    raise Malformed("end of stream inside an object", self.i)
                if d[self.i] != 0x22:
                    raise Malformed("expected a string key", self.i)
                key = self.string()
                if key in seen:
                    self.gray = "duplicate key"
                seen.add(key)
                if "\x00" in key:
                    self.gray = "NUL inside a key"
                self.ws()
                if self.i >= len(d):
                    raise Malformed("end of stream inside an object", self.i)
                if d[self.i] != 0x3A:
                    raise Malformed("expected ':'", self.i)
                self.i += 1
                self.ws()
                val = self.value(depth + 1)
                fields.append((key, val))
                self.ws()
                if self.i >= len(d):
                    raise Malformed("end of stream inside an object", self.i)
                if d[self.i] == 0x2C:
                    self.i += 1
                    continue
                if d[self.i] == 0x7D:
                    self.i += 1
                    return ("rec", None, fields)
                raise Malformed("expected ',' or '}'", self.i)
        if c == 0x22:
            return self.string()
        if c == 0x74:
            return self.literal(b"true", True)
        if c == 0x66:
            return self.literal(b"false", False)
        if c == 0x6E:
            return self.literal(b"null", None)
        if c == 0x2D or 0x30 <= c <= 0x39:
            return self.number()
        raise Malformed("unexpected character", self.i)

    def literal(self, word, val):
        if self.d[self.i:self.i + len(word)] == word:
            self.i += len(word)
            return val
        raise Malformed("bad literal", self.i)

    def number(self):
        d, n = self.d, len(self.d)
        start = self.i
        if d[self.i] == 0x2D:
            self.i += 1
        if self.i >= n:
            raise Malformed("end of stream inside a number", self.i)
        if d[self.i] == 0x30:
            self.i += 1
        elif 0x31 <= d[self.i] <= 0x39:
            while self.i < n and 0x30 <= d[self.i] <= 0x39:
                self.i += 1
        else:
            raise Malformed("digit expected", self.i)
        isfloat = False
        if self.i < n and d[self.i] == 0x2E:
            isfloat = True
            self.i += 1
            if self.i >= n or not (0x30 <= d[self.i] <= 0x39):
                raise Malformed("digit expected after '.'", self.i)
            while self.i < n and 0x30 <= d[self.i] <= 0x39:
                self.i += 1
        if self.i < n and d[self.i] in (0x65, 0x45):
            isfloat = True
            self.i += 1
            if self.i < n and d[self.i] in (0x2B, 0x2D):
                self.i += 1
            if self.i >= n or not (0x30 <= d[self.i] <= 0x39):
                raise Malformed("digit expected in exponent", self.i)
            while self.i < n and 0x30 <= d[self.i] <= 0x39:
                self.i += 1
        text = d[start:self.i].decode("ascii")
        if not isfloat:
            v = int(text)
            if not (-(1 << 63) <= v < (1 << (64 if self.uint64_ok else 63))):
                self.gray = "integer outside int64"
            return v
        v = float(text)
        if math.isinf(v):
            self.gray = "number outside double"
        else:
            # how a tokenizer treats an exponent beyond the double range is its own business even when the value is
            # representable (0E875 is 0.0; 1e-400 underflows to 0.0): decided by the stub here
            m = re.search(r"^-?([0-9.]+)[eE]([+-]?\d+)$", text)
            if m:
                mantissa_is_zero = not m.group(1).strip("0.")
                if (mantissa_is_zero and abs(int(m.group(2))) > 308) or (v == 0.0 and not mantissa_is_zero):
                    self.gray = "exponent outside the double range"
        return v

    def string(self):
        d, n = self.d, len(self.d)
        assert d[self.i] == 0x22
        self.i += 1
        out = bytearray()
        while True:
            if self.i >= n:
                raise Malformed("end of stream inside a string", self.i)
            c = d[self.i]
            if c == 0x22:
                self.i += 1
                break
            if c < 0x20:
                raise Malformed("control character inside a string", self.i)
            if c == 0x5C:
                self.i += 1
                if self.i >= n:
                    raise Malformed("end of stream inside an escape", self.i)
                e = d[self.i]
                self.i += 1
                simple = {0x22: 0x22, 0x5C: 0x5C, 0x2F: 0x2F, 0x62: 8, 0x66: 12, 0x6E: 10, 0x72: 13, 0x74: 9}
                if e in simple:
                    out.append(simple[e])
                elif e == 0x75:
                    cp = self.hex4()
                    if 0xD800 <= cp <= 0xDBFF:
                        if d[self.i:self.i + 2] == b"\\u":
                            save = self.i
                            self.i += 2
                            lo = self.hex4()
                            if 0xDC00 <= lo <= 0xDFFF:
                                cp = 0x10000 + ((cp - 0xD800) << 10) + (lo - 0xDC00)
                            else:
                                self.gray = "lone surrogate"
                                self.i = save
                        else:
                            if self.i >= n:
                                raise Malformed("end of stream after a high surrogate", self.i)
                            self.gray = "lone surrogate"
                    elif 0xDC00 <= cp <= 0xDFFF:
                        self.gray = "lone surrogate"
                    if self.gray == "lone surrogate" and 0xD800 <= cp <= 0xDFFF:
                        out += b"?"
                    else:
                        out += chr(cp).encode("utf-8")
                else:
                    raise Malformed("invalid escape", self.i - 1)
            else:
                out.append(c)
                self.i += 1
        try:
            return bytes(out).decode("utf-8")
        except UnicodeDecodeError:
            self.gray = "invalid UTF-8"
            return bytes(out).decode("latin-1")

    def hex4(self):
        h = self.d[self.i:self.i + 4]
        if len(h) < 4:
            raise Malformed("end of stream inside \\u escape", len(self.d))
        try:
            if not all(chr(x) in "0123456789abcdefABCDEF" for x in h):
                raise ValueError
            v = int(h.decode("ascii"), 16)
        except ValueError:
            raise Malformed("invalid \\u escape", self.i)
        self.i += 4
        return v


def parse_stream(data: bytes, uint64_ok=False) -> Result:
    """uint64_ok: integers up to 2**64 - 1 are in the domain (the output side writes uint64 arrays)"""
    z = data.find(b"\x00")
    if z >= 0:
        data = data[:z]
    p = _P(data)
    p.uint64_ok = uint64_ok
    docs = []
    try:
        while True:
            p.ws()
            if p.i >= len(data):
                break
            docs.append(p.value())
    except Malformed as m:
        return Result("malformed", docs, m.reason, m.pos)
    except RecursionError:
        return Result("gray", docs, "nesting too deep for the reference parser", p.i)
    if p.gray:
        return Result("gray", docs, p.gray, p.i)
    return Result("ok", docs)


# ------------------------------------------------------------------------------------------------- emitter
def emit(v, r, style) -> str:
    """Render a value as JSON text with seeded spelling choices (whitespace, escapes, number spellings)."""
    def ws():
        if style["ws"] == 0:
            return ""
        return r.choice(["", "", " ", "\n", "\t", "  ", " \r\n"]) if style["ws"] == 2 else r.choice(["", " "])
    if v is None:
        return "null"
    if v is True:
        return "true"
    if v is False:
        return "false"
    if isinstance(v, int):
        return str(v)
    if isinstance(v, float):
        if v != v or v in (float("inf"), float("-inf")):
            raise ValueError("non-finite float has no JSON spelling")
        s = repr(v)
        if style["exp"] and r.random() < 0.3:
            s = "%.17e" % v
            if r.random() < 0.5:
                s = s.replace("e", "E")
            if r.random() < 0.5:
                s = s.replace("e+", "e").replace("E+", "E")
        return s
    if isinstance(v, str):
        return emit_str(v, r, style)
    if isinstance(v, list):
        return "[" + ws() + ("," + ws()).join(emit(x, r, style) + ws() for x in v) + "]"
    if isinstance(v, tuple) and v[0] == "rec":
        return "{" + ws() + ("," + ws()).join(emit_str(k, r, style) + ws() + ":" + ws() + emit(x, r, style) + ws()
                                              for k, x in v[2]) + "}"
    raise TypeError(v)


def emit_str(s, r, style):
    out = ['"']
    for ch in s:
        o = ord(ch)
        if ch == '"':
            out.append('\\"')
        elif ch == "\\":
            out.append("\\\\")
        elif o < 0x20:
            short = {8: "\\b", 12: "\\f", 10: "\\n", 13: "\\r", 9: "\\t"}
            if o in short and r.random() < 0.7:
                out.append(short[o])
            else:
                out.append("\\u%04x" % o if r.random() < 0.5 else "\\u%04X" % o)
        elif ch == "/" and style["esc"] and r.random() < 0.5:
            out.append("\\/")
        elif style["esc"] and r.random() < 0.15:
            if o >= 0x10000:
                o -= 0x10000
                out.append("\\u%04x\\u%04x" % (0xD800 + (o >> 10), 0xDC00 + (o & 0x3FF)))
            else:
                out.append("\\u%04x" % o)
        else:
            out.append(ch)
    out.append('"')
    return "".join(out)
