"""layout_gen: from a type to an explicit encoding (DESIGN.md Appendix E).

A *spec* is a JSON-able description of one layout tree with literal buffer contents, so that a case replays without
any random draw.  value_of(spec) evaluates the spec with the reference semantics of every node class (independent
of the library), realize(node, spec) builds it in the simulated node from driver-owned buffers.

spec kinds: numpy, listoffset, list, regular, indexed, bytemasked, bitmasked, unmasked, union, record, empty.
An index is {"d": [ints], "off": k}: the Index views d[off : off+len] of a larger buffer (len given by the node).
"""
from __future__ import annotations

import struct

DTYPES = {"bool": (0, "?", 1), "int8": (1, "b", 1), "int16": (2, "h", 2), "int32": (3, "i", 4), "int64": (4, "q", 8),
          "uint8": (5, "B", 1), "uint16": (6, "H", 2), "uint32": (7, "I", 4), "uint64": (8, "Q", 8),
          "float32": (9, "f", 4), "float64": (10, "d", 8), "complex128": (12, "d", 16), "datetime64": (13, "q", 8),
          "timedelta64": (14, "q", 8)}
NUMERIC = ["bool", "int8", "int16", "int32", "int64", "uint8", "uint16", "uint32", "uint64", "float32", "float64"]
IDXFORM = {"i8": (0, "b", 1), "u8": (1, "B", 1), "i32": (2, "i", 4), "u32": (3, "I", 4), "i64": (4, "q", 8)}
LISTW = ["i32", "u32", "i64"]


# ================================================================================================ type generator
def gen_type(r, depth, opts, top=True):
    """a random type tree"""
    maxd = opts.get("layout_max_depth", 3)
    kinds = ["num", "num", "num", "str"]
    if depth < maxd:
        kinds += ["list", "list", "list", "reglist", "opt", "opt", "rec", "tup", "union"]
        for kind, w in sorted((opts.get("_type_bias") or {}).items()):
            kinds += [kind] * w          # swarm: a run may favour some node kinds
    k = r.choice(kinds)
    if k == "num":
        dts = NUMERIC if not opts.get("layout_exotic_dtypes") else NUMERIC + ["complex128", "datetime64"]
        return ["num", r.choice(dts)]
    if k == "str":
        return ["str" if r.random() < 0.7 or opts.get("layout_no_bytes") else "bytes"]
    if k == "list":
        return ["list", gen_type(r, depth + 1, opts, False)]
    if k == "reglist":
        return ["reglist", gen_type(r, depth + 1, opts, False), r.choice([0, 1, 1, 2, 3])]
    if k == "opt":
        t = gen_type(r, depth + 1, opts, False)
        while t[0] in ("opt", "union"):
            t = gen_type(r, depth + 1, opts, False)
        return ["opt", t]
    if k == "rec":
        n = r.choice([0, 1, 2, 2, 3])
        keys = r.sample(["x", "y", "z", "w", "a b"], n)
        return ["rec", [[key, gen_type(r, depth + 1, opts, False)] for key in keys], r.choice([None, None, "Rec"])]
    if k == "tup":
        n = r.choice([0, 1, 2, 3])
        return ["tup", [gen_type(r, depth + 1, opts, False) for _ in range(n)]]
    # union of 2..3 contents of distinct kind, none of them union; options are pulled outside (valid layouts only)
    n = r.choice([2, 2, 3])
    out = []
    seen = set()
    tries = 0
    while len(out) < n and tries < 20:
        tries += 1
        t = gen_type(r, depth + 1, opts, False)
        if t[0] in ("union", "opt"):
            continue
        sig = t[0] if t[0] != "num" else ("num", "bool" if t[1] == "bool" else "n")
        if sig in seen:
            continue
        seen.add(sig)
        out.append(t)
    if len(out) < 2:
        return ["num", "int64"]
    return ["union", out]


# ================================================================================================ value helpers
def rand_scalar(r, dt):
    if dt == "bool":
        return r.random() < 0.5
    if dt.startswith("int") or dt.startswith("uint"):
        bits = DTYPES[dt][2] * 8
        lo, hi = (-(1 << (bits - 1)), (1 << (bits - 1)) - 1) if dt.startswith("int") else (0, (1 << bits) - 1)
        x = r.random()
        if x < 0.15:
            return r.choice([lo, hi, 0, 1, hi - 1])
        return r.randint(max(lo, -9), min(hi, 20))
    if dt == "float32":
        return r.choice([0.0, -0.0, 1.0, -1.5, 2.5, 0.5, 3.25, 100.0, float("inf"), float("-inf"), float("nan"), 1e10]) \
            if r.random() < 0.4 else r.randint(-40, 40) / 4.0
    if dt == "float64":
        return r.choice([0.0, -0.0, 1.0, -1.5, 2.5, 3.14, 1e100, -1e-100, float("inf"), float("-inf"), float("nan")]) \
            if r.random() < 0.4 else r.randint(-400, 400) / 8.0
    if dt == "complex128":
        def part():
            if r.random() < 0.08:
                return r.choice([float("nan"), float("inf"), float("-inf"), -0.0])
            return r.randint(-4, 4) / 2.0
        return complex(part(), part())
    if dt in ("datetime64", "timedelta64"):
        return r.choice([0, 1, -1, 1600000000, 86400])
    raise AssertionError(dt)


def pack_items(dt, items):
    code = DTYPES[dt][1]
    if dt == "complex128":
        flat = []
        for z in items:
            flat += [z.real, z.imag]
        return struct.pack("<%dd" % len(flat), *flat)
    return struct.pack("<%d%s" % (len(items), code), *items)


def mk_index(r, values, form, pad=True):
    off = r.choice([0, 0, 0, 1, 3]) if pad else 0
    fill = [r.choice([0, 1, 2, 99]) for _ in range(off)]
    tail = [r.choice([0, 1, 99]) for _ in range(r.choice([0, 0, 2]))] if pad else []
    return {"d": fill + list(values) + tail, "off": off, "f": form}


# ================================================================================================ spec generator
class SpecGen:
    def __init__(self, r, opts, long_lists=False, special_rate=0.0):
        self.r = r
        self.opts = opts
        self.long_lists = long_lists        # one list per list node has 17..40 items (sort/partition thresholds)
        self.special_rate = special_rate    # extra density of NaN/inf among floating point items

    def array(self, t, n, wrap=True):
        """spec of an array of type t with exactly n elements. wrap=False: directly inside an option or union node,
        where an IndexedArray would make the layout invalid ("forgot simplify_optiontype")"""
        r = self.r
        spec = self._array(t, n)
        # optional extra indirection (never directly around an option/union: keeps layouts valid)
        if wrap and r.random() < 0.12 and t[0] not in ("opt", "union") and spec["k"] != "empty":
            m = spec_len(spec)
            if m > 0:
                idx = [r.randrange(m) for _ in range(n)]
                return {"k": "indexed", "option": False, "index": mk_index(r, idx, r.choice(LISTW)), "n": n,
                        "content": spec}
        return spec

    def _array(self, t, n):
        r = self.r
        k = t[0]
        if k == "num":
            return self.numpy(t[1], n)
        if k in ("str", "bytes"):
            return self.listlike(["num", "uint8"], n, param="string" if k == "str" else "bytestring")
        if k == "list":
            return self.listlike(t[1], n)
        if k == "reglist":
            size = t[2]
            if size >= 1 and t[1][0] == "num" and self.opts.get("layout_numpy_2d", True) and r.random() < 0.25:
                # the other encoding of "n lists of exactly `size` numbers": a two-dimensional NumpyArray
                return self.numpy2d(t[1][1], n, size)
            if size >= 1 and t[1][0] == "reglist" and t[1][2] >= 1 and t[1][1][0] == "num" and \
                    self.opts.get("layout_numpy_2d", True) and r.random() < 0.3:
                # ... and of "n lists of `size` lists of exactly k numbers": a three-dimensional NumpyArray, mostly
                # a view (x[::2], x[:, :, ::2], x[1:]) of a larger block
                return self.numpy_nd(t[1][1][1], [n, size, t[1][2]])
            extra = r.randrange(size) if size > 1 else 0      # fewer than one more row
            content = self.array(t[1], n * size + extra)
            return {"k": "regular", "size": size, "zeros_length": n if size == 0 else 0, "n": n, "content": content}
        if k == "opt":
            return self.option(t[1], n)
        if k == "rec":
            contents = [self.array(ft, n + r.choice([0, 0, 0, 1, 3])) for _, ft in t[1]]
            return {"k": "record", "keys": [key for key, _ in t[1]], "name": t[2], "n": n, "contents": contents}
        if k == "tup":
            contents = [self.array(ft, n + r.choice([0, 0, 0, 1, 3])) for ft in t[1]]
            return {"k": "record", "keys": None, "name": None, "n": n, "contents": contents}
        if k == "union":
            m = len(t[1])
            tags = [r.randrange(m) for _ in range(n)]
            counts = [tags.count(i) for i in range(m)]
            contents = []
            index = [0] * n
            for i in range(m):
                extra = r.choice([0, 0, 1, 2])
                total = counts[i] + extra
                contents.append(self.array(t[1][i], total, wrap=False))
                slots = list(range(total))
                r.shuffle(slots)
                j = 0
                for p in range(n):
                    if tags[p] == i:
                        index[p] = slots[j]
                        j += 1
            w = r.choice(LISTW)
            return {"k": "union", "tags": mk_index(r, tags, "i8"), "index": mk_index(r, index, w), "n": n,
                    "contents": contents}
        raise AssertionError(t)

    def numpy(self, dt, n):
        r = self.r
        isz = DTYPES[dt][2]
        stride_items = r.choice([1, 1, 1, 1, 1, 2, 3, -1, -2])      # negative: a reversed view, x[::-1]
        pad = r.choice([0, 0, 0, 1, 2])
        total = pad + max(0, (n - 1) * abs(stride_items) + 1 if n > 0 else 0) + r.choice([0, 0, 1])
        items = [rand_scalar(r, dt) for _ in range(total)]
        if self.special_rate and dt in ("float32", "float64"):
            items = [r.choice([float("nan"), float("nan"), float("inf"), float("-inf"), -0.0])
                     if r.random() < self.special_rate else x for x in items]
        unit = "s" if dt in ("datetime64", "timedelta64") else ""
        first = pad if stride_items > 0 or n == 0 else pad + (n - 1) * abs(stride_items)
        return {"k": "numpy", "dtype": dt, "buf": pack_items(dt, items).hex(), "shape": [n], "strides": [stride_items * isz],
                "byteoffset": first * isz, "unit": unit}

    def numpy2d(self, dt, n, size):
        r = self.r
        isz = DTYPES[dt][2]
        item_stride = r.choice([1, 1, 1, 2])                  # in items
        row_stride = item_stride * size + r.choice([0, 0, 1, 3])
        pad = r.choice([0, 0, 1, 2])
        total = pad + (max(0, (n - 1) * row_stride + (size - 1) * item_stride + 1) if n > 0 else 0) + r.choice([0, 1])
        items = [rand_scalar(r, dt) for _ in range(total)]
        unit = "s" if dt in ("datetime64", "timedelta64") else ""
        return {"k": "numpy", "dtype": dt, "buf": pack_items(dt, items).hex(), "shape": [n, size],
                "strides": [row_stride * isz, item_stride * isz], "byteoffset": pad * isz, "unit": unit}

    def numpy_nd(self, dt, shape):
        r = self.r
        isz = DTYPES[dt][2]
        nd = len(shape)
        strides = [0] * nd                                   # in items
        cur = r.choice([1, 1, 1, 2])
        for d in reversed(range(nd)):
            if d == nd - 1:
                strides[d] = cur
            elif d == 0:
                strides[d] = cur * r.choice([1, 1, 2, 2, 3]) + r.choice([0, 0, 0, 1])    # x[::2] of a longer array
            else:
                strides[d] = cur + r.choice([0, 0, 0, 1, 3])
            cur = strides[d] * max(shape[d], 1)
        pad = r.choice([0, 0, 1, 2])
        span = (sum((shape[d] - 1) * strides[d] for d in range(nd)) + 1) if all(x > 0 for x in shape) else 0
        total = pad + span + r.choice([0, 1])
        items = [rand_scalar(r, dt) for _ in range(total)]
        unit = "s" if dt in ("datetime64", "timedelta64") else ""
        return {"k": "numpy", "dtype": dt, "buf": pack_items(dt, items).hex(), "shape": list(shape),
                "strides": [x * isz for x in strides], "byteoffset": pad * isz, "unit": unit}

    def listlike(self, inner, n, param=None):
        r = self.r
        lens = [r.choice([0, 0, 1, 1, 2, 3, 4]) for _ in range(n)]
        if self.long_lists and n > 0 and param is None:
            lens[r.randrange(n)] = r.randint(17, 40)
        enc = r.choice(["listoffset", "listoffset", "list"]) if param is None else r.choice(["listoffset", "listoffset", "list"])
        w = r.choice(LISTW)
        if enc == "listoffset":
            origin = r.choice([0, 0, 0, 1, 2])
            total = origin + sum(lens) + r.choice([0, 0, 1, 2])
            content = self.chars(total, param) if param else self.array(inner, total)
            offsets = [origin]
            for L in lens:
                offsets.append(offsets[-1] + L)
            out = {"k": "listoffset", "offsets": mk_index(r, offsets, w), "n": n, "content": content}
        else:
            total = max(sum(lens), max(lens) if lens else 0) + r.choice([0, 1, 2])
            content = self.chars(total, param) if param else self.array(inner, total)
            starts, stops = [], []
            for L in lens:
                s = r.randint(0, total - L) if L > 0 else r.randint(0, total)
                starts.append(s)
                stops.append(s + L)
            same = r.random() < 0.5
            out = {"k": "list", "starts": mk_index(r, starts, w), "stops": mk_index(r, stops, w, pad=not same), "n": n,
                   "content": content}
        if param:
            out["param"] = param
        return out

    def chars(self, total, param):
        r = self.r
        if param == "string":
            data = bytes(r.choice(b"abcxyz 0123") for _ in range(total))
        else:
            data = bytes(r.randrange(256) for _ in range(total))
        spec = {"k": "numpy", "dtype": "uint8", "buf": data.hex(), "shape": [total], "strides": [1], "byteoffset": 0,
                "unit": "", "param": "char" if param == "string" else "byte"}
        if total > 0 and r.random() < 0.12:
            # the characters are a strided or reversed view of a larger buffer (np.frombuffer(...)[::2], [::-1])
            st = r.choice([2, 3, -1, -2])
            filler = bytes(r.choice(b"#%") for _ in range((total - 1) * abs(st) + 1))
            buf = bytearray(filler)
            first = 0 if st > 0 else (total - 1) * abs(st)
            for i, ch in enumerate(data):
                buf[first + i * st] = ch
            spec.update({"buf": bytes(buf).hex(), "strides": [st], "byteoffset": first})
        return spec

    def option(self, inner, n):
        r = self.r
        enc = r.choice(["indexedoption", "indexedoption", "bytemasked", "bitmasked", "unmasked"])
        valid = [r.random() < 0.7 for _ in range(n)]
        if enc == "indexedoption":
            m = sum(valid) + r.choice([0, 1, 2])
            content = self.array(inner, m, wrap=False)
            slots = list(range(m))
            r.shuffle(slots)
            idx = []
            j = 0
            for v in valid:
                if v:
                    idx.append(slots[j]); j += 1
                else:
                    idx.append(r.choice([-1, -1, -2, -7]))
            w = r.choice(["i32", "i64"])
            return {"k": "indexed", "option": True, "index": mk_index(r, idx, w), "n": n, "content": content}
        if enc == "bytemasked":
            vw = r.random() < 0.5
            # any non-zero byte is "true" (NumPy boolean arrays hold 0/1, but a mask viewed from other bytes need not)
            true = [1, 1, 1, 1, 2, -1, 127, -128] if r.random() < 0.3 else [1]
            mask = [(r.choice(true) if v else 0) if vw else (0 if v else r.choice(true)) for v in valid]
            content = self.array(inner, n + r.choice([0, 0, 1]), wrap=False)
            return {"k": "bytemasked", "mask": mk_index(r, mask, "i8"), "valid_when": vw, "n": n, "content": content}
        if enc == "bitmasked":
            vw = r.random() < 0.5
            lsb = r.random() < 0.5
            # (a mask may be longer than the array needs: np.packbits of a longer array, sliced logically)
            nbytes = (n + 7) // 8 + r.choice([0, 0, 0, 1, 2])
            bits = [(v == vw) for v in valid] + [r.random() < 0.5 for _ in range(nbytes * 8 - n)]
            by = []
            for b in range(nbytes):
                x = 0
                for i in range(8):
                    if bits[b * 8 + i]:
                        x |= (1 << i) if lsb else (1 << (7 - i))
                by.append(x)
            content = self.array(inner, n + r.choice([0, 0, 1, 5]), wrap=False)
            return {"k": "bitmasked", "mask": mk_index(r, by, "u8"), "valid_when": vw, "lsb": lsb, "n": n, "content": content,
                    "mask_bytes": nbytes}
        content = self.array(inner, n, wrap=False)
        return {"k": "unmasked", "n": n, "content": content}


def spec_len(spec):
    k = spec["k"]
    if k == "numpy":
        return spec["shape"][0]
    if k == "empty":
        return 0
    if k == "virtual":
        return spec_len(spec["content"])
    return spec["n"]


# ================================================================================================ reference evaluation
def idx_view(ix, n):
    return ix["d"][ix["off"]:ix["off"] + n]


def value_of(spec):
    """list of element values of the layout described by spec (reference semantics, no library involved)"""
    k = spec["k"]
    if k == "empty":
        return []
    if k == "virtual":
        return value_of(spec["content"])
    if k == "numpy":
        dt = spec["dtype"]
        code, isz = DTYPES[dt][1], DTYPES[dt][2]
        buf = bytes.fromhex(spec["buf"])
        if len(spec["shape"]) >= 2:
            rows = []
            for i in range(spec["shape"][0]):
                row = dict(spec)
                row["shape"] = spec["shape"][1:]
                row["strides"] = spec["strides"][1:]
                row["byteoffset"] = spec["byteoffset"] + i * spec["strides"][0]
                rows.append(value_of(row))
            return rows
        out = []
        for i in range(spec["shape"][0]):
            p = spec["byteoffset"] + i * spec["strides"][0]
            if dt == "complex128":
                re, im = struct.unpack_from("<2d", buf, p)
                out.append(complex(re, im))
            elif dt in ("datetime64", "timedelta64"):
                out.append(("dt", struct.unpack_from("<q", buf, p)[0], ("M8[%s]" if dt == "datetime64" else "m8[%s]") % spec["unit"]))
            else:
                out.append(struct.unpack_from("<" + code, buf, p)[0])
        return out
    if k in ("listoffset", "list", "regular"):
        n = spec["n"]
        c = spec["content"]
        if k == "listoffset":
            off = idx_view(spec["offsets"], n + 1)
            ranges = [(off[i], off[i + 1]) for i in range(n)]
        elif k == "list":
            st, sp = idx_view(spec["starts"], n), idx_view(spec["stops"], n)
            ranges = list(zip(st, sp))
        else:
            ranges = [(i * spec["size"], (i + 1) * spec["size"]) for i in range(n)]
        param = spec.get("param")
        if param:
            buf = bytes.fromhex(c["buf"])
            out = []
            for a, b in ranges:
                raw = bytes(buf[c["byteoffset"] + j * c["strides"][0]] for j in range(a, b))
                if param == "string":
                    try:
                        out.append(raw.decode("utf-8"))
                    except UnicodeDecodeError:
                        out.append(("badutf8", raw))
                else:
                    out.append(raw)
            return out
        cv = value_of(c)
        return [cv[a:b] for a, b in ranges]
    if k == "indexed":
        cv = value_of(spec["content"])
        ix = idx_view(spec["index"], spec["n"])
        if spec["option"]:
            return [None if j < 0 else cv[j] for j in ix]
        return [cv[j] for j in ix]
    if k == "bytemasked":
        cv = value_of(spec["content"])
        m = idx_view(spec["mask"], spec["n"])
        return [cv[i] if ((m[i] != 0) == spec["valid_when"]) else None for i in range(spec["n"])]
    if k == "bitmasked":
        cv = value_of(spec["content"])
        by = idx_view(spec["mask"], (spec["n"] + 7) // 8)
        out = []
        for i in range(spec["n"]):
            b = by[i // 8]
            bit = (b >> (i % 8)) & 1 if spec["lsb"] else (b >> (7 - i % 8)) & 1
            out.append(cv[i] if ((bit != 0) == spec["valid_when"]) else None)
        return out
    if k == "unmasked":
        return value_of(spec["content"])[:spec["n"]]
    if k == "union":
        cvs = [value_of(c) for c in spec["contents"]]
        tags = idx_view(spec["tags"], spec["n"])
        ix = idx_view(spec["index"], spec["n"])
        return [cvs[t][j] for t, j in zip(tags, ix)]
    if k == "record":
        cvs = [value_of(c) for c in spec["contents"]]
        if spec["keys"] is None:
            return [("tup", [cv[i] for cv in cvs]) for i in range(spec["n"])]
        return [("rec", spec["name"], [(key, cv[i]) for key, cv in zip(spec["keys"], cvs)]) for i in range(spec["n"])]
    raise AssertionError(k)


# ================================================================================================ realisation
class Realized:
    def __init__(self):
        self.bufs = []      # (handle, nbytes, role, itemsize) of index/mask/tag buffers (targets of corruption faults)
        self.all = []       # every handle created (to drop the intermediates)
        self.cache = 0      # cache handle shared by the virtual nodes (0 = no cache)
        self.gens = {}      # key -> generator handle of each virtual node
        self.virtuals = {}  # key -> VirtualArray handle


def realize(node, spec, rz=None):
    """builds spec in the node; returns the content handle. rz collects the buffers created."""
    rz = rz if rz is not None else Realized()
    k = spec["k"]

    def index(ix, role):
        form, code, isz = IDXFORM[ix["f"]]
        vals = ix["d"]
        if ix["f"] in ("u8", "u32"):
            vals = [v & ((1 << (8 * isz)) - 1) for v in vals]
        data = struct.pack("<%d%s" % (len(vals), code), *vals)
        b = node.buf(data)
        rz.bufs.append((b, len(data), role, isz))
        return b, form

    def idx_handle(ix, n, role):
        b, form = index(ix, role)
        h = node.index(b, form, ix["off"], n)
        rz.all.append(h)
        return h

    if k == "empty":
        h = node.empty()
    elif k == "virtual":
        c = realize(node, spec["content"], rz)
        wrong = realize(node, spec["wrong"], rz) if spec.get("wrong") else 0
        if spec.get("reordered"):
            declared_as, c = c, realize(node, spec["reordered"], rz)
        longer = 0
        n = node.length(c)
        if spec["declare_length"] and n > 0 and not virtual_keys(spec["content"]):
            # the same items followed by one or two of them again (a generation that is longer than declared)
            from . import ops as _ops
            ix = realize(node, _ops.int64_spec(list(range(n)) + list(range(min(n, 2)))), rz)
            try:
                longer = node.op(4, c, ix, iargs=[0])
                if node.text(longer, 0) != node.text(c, 0):
                    # the copy is of another node class (a carried ListOffsetArray is a ListArray): a generator
                    # whose Form changes from call to call is another matter than a surplus of items
                    node.drop(longer)
                    longer = 0
            except Exception:
                longer = 0
        g = node.gen_new(c, spec["declare_form"], spec["declare_length"], wrong, longer, spec["key"])
        if spec.get("reordered") and spec["declare_form"]:
            node.gen_declare_form_of(g, declared_as)
        if spec.get("respelled") and spec["declare_form"]:
            node.gen_declare_form_of(g, realize(node, spec["respelled"], rz))
        if spec.get("declared_shorter") is not None:
            node.gen_declare_length(g, spec["declared_shorter"])
        rz.gens[spec["key"]] = g
        h = node.virtual(g, rz.cache if spec.get("cached", True) else 0, spec["key"])
        rz.virtuals[spec["key"]] = h
    elif k == "numpy":
        data = bytes.fromhex(spec["buf"])
        b = node.buf(data)
        rz.all.append(b)
        h = node.numpy(b, DTYPES[spec["dtype"]][0], spec["shape"], spec["strides"], spec["byteoffset"], spec.get("unit", ""))
        if spec.get("param"):
            node.setparam(h, "__array__", '"%s"' % spec["param"])
    elif k == "listoffset":
        c = realize(node, spec["content"], rz)
        h = node.listoffset(idx_handle(spec["offsets"], spec["n"] + 1, "offsets"), c)
    elif k == "list":
        c = realize(node, spec["content"], rz)
        h = node.list(idx_handle(spec["starts"], spec["n"], "starts"), idx_handle(spec["stops"], spec["n"], "stops"), c)
    elif k == "regular":
        c = realize(node, spec["content"], rz)
        h = node.regular(c, spec["size"], spec["zeros_length"])
    elif k == "indexed":
        c = realize(node, spec["content"], rz)
        h = node.indexed(idx_handle(spec["index"], spec["n"], "index"), c, spec["option"])
        if spec.get("param"):
            node.setparam(h, "__array__", '"%s"' % spec["param"])
    elif k == "bytemasked":
        c = realize(node, spec["content"], rz)
        h = node.bytemasked(idx_handle(spec["mask"], spec.get("mask_len", spec["n"]), "mask"), c, spec["valid_when"])
    elif k == "bitmasked":
        c = realize(node, spec["content"], rz)
        h = node.bitmasked(idx_handle(spec["mask"], spec.get("mask_bytes", (spec["n"] + 7) // 8), "mask"), c, spec["valid_when"],
                           spec["n"], spec["lsb"])
    elif k == "unmasked":
        c = realize(node, spec["content"], rz)
        h = node.unmasked(c)
    elif k == "union":
        cs = [realize(node, c, rz) for c in spec["contents"]]
        h = node.union(idx_handle(spec["tags"], spec["n"], "tags"), idx_handle(spec["index"], spec["n"], "index"), cs)
    elif k == "record":
        cs = [realize(node, c, rz) for c in spec["contents"]]
        h = node.record(cs, spec["keys"], spec["n"])
        if spec.get("name"):
            node.setparam(h, "__record__", '"%s"' % spec["name"])
    else:
        raise AssertionError(k)
    if k in ("listoffset", "list", "regular") and spec.get("param"):
        node.setparam(h, "__array__", '"%s"' % spec["param"])
    if spec.get("extra_param"):
        node.setparam(h, spec["extra_param"][0], spec["extra_param"][1])
    rz.all.append(h)
    return h


def node_classes(spec, out=None):
    out = out if out is not None else []
    k = spec["k"]
    tag = k
    if k in ("listoffset", "list"):
        tag += ":" + (spec["offsets"]["f"] if k == "listoffset" else spec["starts"]["f"])
    elif k == "indexed":
        tag += (":opt:" if spec["option"] else ":") + spec["index"]["f"]
    elif k == "numpy":
        tag += ":" + spec["dtype"]
    elif k == "regular":
        tag += ":%d" % min(spec["size"], 2)
    out.append(tag)
    for c in ([spec["content"]] if "content" in spec else spec.get("contents", [])):
        node_classes(c, out)
    return out


def keys_of(spec):
    """field names reachable at the outermost record level (through lists/options), for field slices"""
    k = spec["k"]
    if k == "record":
        return spec["keys"] if spec["keys"] is not None else [str(i) for i in range(len(spec["contents"]))]
    if "content" in spec:
        return keys_of(spec["content"])
    return []


def depth_of(spec):
    k = spec["k"]
    if k == "virtual":
        return depth_of(spec["content"])
    if k in ("listoffset", "list", "regular") and not spec.get("param"):
        return 1 + depth_of(spec["content"])
    if k in ("indexed", "bytemasked", "bitmasked", "unmasked"):
        return depth_of(spec["content"])
    if k == "union":
        return max([depth_of(c) for c in spec["contents"]] + [1])
    if k == "record":
        return max([depth_of(c) for c in spec["contents"]] + [1])
    return 1


# ================================================================================================ lazy variants
SWAP = {"int64": "float64", "float64": "int64", "int32": "float32", "float32": "int32", "int16": "uint16", "uint16": "int16",
        "int8": "uint8", "uint8": "int8", "uint32": "int32", "uint64": "int64", "bool": "int8", "complex128": "float64",
        "datetime64": "int64", "timedelta64": "int64"}


def strip_virtuals(spec):
    import copy
    if spec["k"] == "virtual":
        return strip_virtuals(spec["content"])
    d = {k: v for k, v in spec.items() if k not in ("content", "contents")}
    d = copy.deepcopy(d)
    if "content" in spec:
        d["content"] = strip_virtuals(spec["content"])
    if "contents" in spec:
        d["contents"] = [strip_virtuals(c) for c in spec["contents"]]
    return d


def _first_named_record(s):
    """first RecordArray node with at least two named fields, not looking through VirtualArray nodes"""
    if s["k"] == "virtual":
        return None
    if s["k"] == "record" and s.get("keys") and len(s["keys"]) >= 2:
        return s
    for c in ([s["content"]] if "content" in s else s.get("contents", [])):
        x = _first_named_record(c)
        if x is not None:
            return x
    return None


def respelled_variant(spec):
    """the same tree with its first int64/uint64 leaf announcing the other format string of the same type ('q' for
    'l'): the same Form for every purpose. None when there is no such leaf or VirtualArrays are nested inside."""
    import copy
    if virtual_keys(spec):
        return None
    d = copy.deepcopy(spec)

    def walk(s):
        if s["k"] == "numpy" and s["dtype"] in ("int64", "uint64") and not s.get("param"):
            s["unit"] = "" if s.get("unit") == "alt" else "alt"
            return True
        for c in ([s["content"]] if "content" in s else s.get("contents", [])):
            if walk(c):
                return True
        return False
    return d if walk(d) else None


def reordered_variant(spec):
    """the same tree with the fields of its first named record in reverse order: the same value (fields are found by
    name) and a Form that a Form declared in the original order must accept. None when there is no such record or when
    VirtualArray nodes are nested inside (their keys would exist twice)."""
    import copy
    if virtual_keys(spec):
        return None
    d = copy.deepcopy(spec)
    rec = _first_named_record(d)
    if rec is None:
        return None
    rec["keys"] = rec["keys"][::-1]
    rec["contents"] = rec["contents"][::-1]
    return d


def swapped_fields_variant(spec):
    """the same tree with the names of two fields of different type exchanged in its first named record: same keys,
    same length, another Form. None when there is no such record."""
    d = strip_virtuals(spec)
    rec = _first_named_record(d)
    if rec is None:
        return None

    def sig(c):
        # the type skeleton, not the node class: with the compatibility rules of Form::equal a BitMaskedForm passes for
        # a ByteMaskedForm of the same content and valid_when, so fields that differ in node class only may be
        # exchanged without the Form "changing"
        k = c["k"]
        if k == "numpy":
            return ("num", c.get("dtype"), c.get("param"), tuple(c.get("shape", [0])[1:]))
        if k in ("listoffset", "list"):
            return ("list", c.get("param"), sig(c["content"]))
        if k == "regular":
            return ("reg", c.get("size"), c.get("param"), sig(c["content"]))
        if k in ("bytemasked", "bitmasked", "unmasked") or (k == "indexed" and c.get("option")):
            return ("opt", sig(c["content"]))
        if k == "indexed":
            return sig(c["content"])
        if k == "record":
            return ("rec", c.get("name"), tuple(sorted((str(key), sig(x)) for key, x in zip(c.get("keys") or range(len(c["contents"])), c["contents"]))))
        if k == "union":
            return ("union", tuple(sig(x) for x in c["contents"]))
        return (k,)
    for i in range(len(rec["keys"])):
        for j in range(i + 1, len(rec["keys"])):
            if sig(rec["contents"][i]) != sig(rec["contents"][j]):
                rec["keys"][i], rec["keys"][j] = rec["keys"][j], rec["keys"][i]
                return d
    return None


def mask_flip_variant(spec, r):
    """the same values with the first byte-masked node turned into a bit-masked one of the *opposite* valid_when (or the
    other way round): Form::equal lets the two classes pass for each other only when valid_when agrees."""
    d = strip_virtuals(spec)

    def walk(s):
        if s["k"] in ("bytemasked", "bitmasked"):
            n = s["n"]
            if s["k"] == "bytemasked":
                m = idx_view(s["mask"], n)
                valid = [(m[i] != 0) == s["valid_when"] for i in range(n)]
            else:
                by = idx_view(s["mask"], (n + 7) // 8)
                valid = []
                for i in range(n):
                    bit = (by[i // 8] >> (i % 8)) & 1 if s["lsb"] else (by[i // 8] >> (7 - i % 8)) & 1
                    valid.append((bit != 0) == s["valid_when"])
            vw = not s["valid_when"]
            if s["k"] == "bytemasked":
                nbytes = (n + 7) // 8
                by = [0] * nbytes
                for i in range(n):
                    if valid[i] == vw:
                        by[i // 8] |= 1 << (i % 8)
                new = {"k": "bitmasked", "mask": {"d": by, "off": 0, "f": "u8"}, "valid_when": vw, "lsb": True, "n": n,
                       "content": s["content"], "mask_bytes": nbytes}
            else:
                new = {"k": "bytemasked", "mask": {"d": [1 if valid[i] == vw else 0 for i in range(n)], "off": 0, "f": "i8"},
                       "valid_when": vw, "n": n, "content": s["content"]}
            s.clear()
            s.update(new)
            return True
        for c in ([s["content"]] if "content" in s else s.get("contents", [])):
            if walk(c):
                return True
        return False
    return d if walk(d) else None


def wrong_form_variant(spec, r=None):
    """the same tree with the first numeric leaf reinterpreted as another primitive type of the same size: an array
    of the right length whose Form differs from the declared one. None when the tree has no such leaf. With a PRNG:
    sometimes the names of two record fields of different type are exchanged instead."""
    if r is not None and r.random() < 0.4:
        d = swapped_fields_variant(spec)
        if d is not None:
            return d
    if r is not None and r.random() < 0.25:
        d = mask_flip_variant(spec, r)
        if d is not None:
            return d
    if r is not None and r.random() < 0.25:
        # the same structure and values under another name: a record called something else, a node with a behaviour
        # name (__array__) that the declared Form does not have - Forms that differ in parameters only
        d = strip_virtuals(spec)
        if d["k"] == "record":
            d["name"] = (d.get("name") or "") + "Other"
            return d
        if not d.get("param") and d["k"] != "empty":
            d["extra_param"] = ["__array__", '"custom"']
            return d
    d = strip_virtuals(spec)

    def walk(s):
        if s["k"] == "numpy" and not s.get("param"):
            new = SWAP.get(s["dtype"])
            if new is None:
                return False
            if DTYPES[new][2] != DTYPES[s["dtype"]][2]:
                return False
            s["dtype"] = new
            s["unit"] = ""
            return True
        for c in ([s["content"]] if "content" in s else s.get("contents", [])):
            if walk(c):
                return True
        return False
    return d if walk(d) else None


def insert_virtuals(r, spec, nmax, declare_form, declare_length, prefix="k", force_root=False, double_below_option=False):
    """returns a copy of spec with up to nmax VirtualArray nodes inserted (never directly under a string list: the
    validity rules require a NumpyArray there). Keys are unique."""
    import copy
    d = copy.deepcopy(spec)
    sites = []

    def collect(s, parent, slot):
        if not (parent is not None and parent.get("param")) and s["k"] != "empty":
            sites.append((parent, slot))
        if "content" in s:
            collect(s["content"], s, "content")
        for i, c in enumerate(s.get("contents", [])):
            collect(c, s, ("contents", i))
    collect(d, None, None)
    r.shuffle(sites)
    if force_root:
        sites.sort(key=lambda ps: ps[0] is not None)      # the whole array first (stable: the rest keeps its order)
    forced_double = None
    if double_below_option:
        # the content of the first option node comes first and is wrapped twice
        for ps in sites:
            p = ps[0]
            if p is not None and ps[1] == "content" and \
                    (p["k"] in ("bytemasked", "bitmasked", "unmasked") or (p["k"] == "indexed" and p.get("option"))):
                forced_double = ps
                break
        if forced_double is not None:
            sites.remove(forced_double)
            sites.insert(0, forced_double)
    chosen = sites[:r.randint(1, max(1, nmax))]
    count = [0]

    def wrap(s):
        key = "%s%d" % (prefix, count[0])
        count[0] += 1
        v = {"k": "virtual", "key": key, "content": s, "declare_form": declare_form, "declare_length": declare_length,
             "cached": True, "wrong": wrong_form_variant(s, r)}
        if r.random() < 0.2:
            # the generator returns the record with its fields in another order than the declared Form lists them
            ro = reordered_variant(s)
            if ro is not None:
                v["reordered"] = ro
        elif r.random() < 0.15:
            # the declared Form spells an 8-byte integer type with the other format string
            rs = respelled_variant(s)
            if rs is not None:
                v["respelled"] = rs
        return v
    root = d

    def wrap_inner(s, force=False):
        v = wrap(s)
        if r.random() < 0.12 or force:
            # virtual of virtual below another node too (the code that looks through VirtualArrays has to loop)
            v = wrap(v)
            v["declare_form"] = False
            v["wrong"] = None
        return v
    # wrap deepest first so that parents stay reachable
    for parent, slot in chosen:
        if parent is None:
            continue
        if slot == "content":
            parent["content"] = wrap_inner(parent["content"], forced_double is not None and (parent, slot) == forced_double)
        else:
            parent["contents"][slot[1]] = wrap_inner(parent["contents"][slot[1]])
    if any(p is None for p, _ in chosen):
        root = wrap(d)
        if r.random() < 0.2:
            root = wrap(root)      # virtual of virtual
            # the outer generator produces a VirtualArray: what "the Form of a virtual array" is depends on whether
            # the inner one has been materialised, so nothing is declared for it
            root["declare_form"] = False
            root["wrong"] = None
    return root


def make_invalid(r, spec):
    """a copy of spec made structurally inconsistent in one place (what a hand-built or damaged layout looks like); returns
    (spec, kind) or None. Only check / print / convert are promised for such arrays."""
    import copy
    d = copy.deepcopy(spec)
    sites = []

    def walk(sp):
        k = sp["k"]
        if k == "record" and sp.get("contents") and sp["n"] >= 1:
            sites.append(("short_field", sp))
        if k in ("listoffset", "list") and sp.get("param") in ("string", "bytestring"):
            sites.append(("string_content_not_numpy", sp))
        if k == "bytemasked" and sp["n"] >= 1:
            sites.append(("short_mask", sp))
        if k == "regular" and sp.get("size", 0) >= 1 and sp["n"] >= 1:
            sites.append(("short_regular_content", sp))
        if k == "indexed" and sp["n"] >= 1:
            sites.append(("short_indexed_content", sp))
        for c in ([sp["content"]] if "content" in sp else sp.get("contents", [])):
            walk(c)
    walk(d)
    if not sites:
        return None
    kind, sp = r.choice(sites)

    def shorter(c, by):
        # the same node with fewer items (only for node kinds whose length is a plain count)
        c = copy.deepcopy(c)
        if c["k"] == "numpy":
            c["shape"] = [max(0, c["shape"][0] - by)] + c["shape"][1:]
            return c
        if "n" in c and c["k"] in ("listoffset", "list", "indexed", "bytemasked", "bitmasked", "unmasked", "regular", "record", "union"):
            c["n"] = max(0, c["n"] - by)
            return c
        return None
    if kind == "short_field":
        i = r.randrange(len(sp["contents"]))
        c = shorter(sp["contents"][i], r.choice([1, 1, 2, sp["n"]]))
        if c is None:
            return None
        sp["contents"][i] = c
    elif kind == "string_content_not_numpy":
        c = sp["content"]
        m = spec_len(c)
        sp["content"] = {"k": "indexed", "option": False, "index": {"d": list(range(m)), "off": 0, "f": "i64"}, "n": m,
                         "content": c, "param": c.get("param")}
    elif kind == "short_mask":
        sp["mask"] = dict(sp["mask"])
        keep = max(0, sp["n"] - r.choice([1, 2, sp["n"]]))
        sp["mask"]["d"] = sp["mask"]["d"][:sp["mask"]["off"] + keep]
        sp["mask_len"] = keep
    elif kind in ("short_regular_content", "short_indexed_content"):
        c = shorter(sp["content"], r.choice([1, 2]))
        if c is None:
            return None
        sp["content"] = c
    return d, kind


def drop_reordered(spec):
    if spec["k"] == "virtual":
        spec.pop("reordered", None)
    for c in ([spec["content"]] if "content" in spec else spec.get("contents", [])):
        drop_reordered(c)


def virtual_keys(spec, out=None):
    out = out if out is not None else []
    if spec["k"] == "virtual":
        out.append(spec["key"])
    for c in ([spec["content"]] if "content" in spec else spec.get("contents", [])):
        virtual_keys(c, out)
    return out
