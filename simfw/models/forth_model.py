"""Executable reference model of AwkwardForth (DESIGN.md 5.3 C, Appendix C).

Programs are ASTs (JSON-able nested lists) so that the generator, the renderer, the model and the shrinker all
work on the same structure:

  program = {"vars": [name...], "inputs": [name...], "outputs": [[name, dtype]...],
             "defs": [[name, body]...], "main": body}
  body    = [node...]
  node    = ["lit", n] | ["lit", n, "x"|"X"] (hexadecimal spelling) | ["w", word]   (generic builtin)
          | ["if", body] | ["ifelse", body, body]
          | ["do", body] | ["+do", body]                   (do ... loop / do ... +loop)
          | ["until", body] | ["again", body] | ["while", pre, post]
          | ["call", name] | ["recurse"] | ["exit"] | ["halt"] | ["pause"]
          | ["var", name, "!"|"+!"|"@"]
          | ["in", name, "len"|"pos"|"end"|"seek"|"skip"]
          | ["read", inname, parser, dest]                 (parser e.g. "#!h->", "7bit->"; dest "stack" or output)
          | ["out", name, "<-"|"+<-"|"dup"|"len"|"rewind"]
          | ["s", text] | ["p", text]                      (s" text" / ." text")
          | ["raw", text]                                  (ill-formed fragments for the compile-error half)

The interpreter is a coroutine: it yields at every `pause`, so run/resume/call can be driven exactly like the
real machine.  Semantics follow the property statement and standard Forth; points that neither pins down are
marked CALIBRATED (they mirror what the unchanged tree does, so there the model detects change only).
"""
from __future__ import annotations

import struct
import sys

# a Forth return stack of 1024 frames is two Python frames per level in the coroutine interpreter
if sys.getrecursionlimit() < 12000:
    sys.setrecursionlimit(12000)

ERR = ["none", "not_ready", "is_done", "user_halt", "recursion_depth_exceeded", "stack_underflow",
       "stack_overflow", "read_beyond", "seek_beyond", "skip_beyond", "rewind_beyond", "division_by_zero",
       "varint_too_big"]
ERRCODE = {n: i for i, n in enumerate(ERR)}

DTYPES = ["bool", "int8", "int16", "int32", "int64", "uint8", "uint16", "uint32", "uint64", "float32", "float64"]
ITEMSIZE = {"bool": 1, "int8": 1, "int16": 2, "int32": 4, "int64": 8, "uint8": 1, "uint16": 2, "uint32": 4,
            "uint64": 8, "float32": 4, "float64": 8}
PACK = {"bool": "?", "int8": "b", "int16": "h", "int32": "i", "int64": "q", "uint8": "B", "uint16": "H",
        "uint32": "I", "uint64": "Q", "float32": "f", "float64": "d"}

# read words: letter -> (struct code, size, kind)
READ = {"?": ("?", 1, "bool"), "b": ("b", 1, "int"), "h": ("h", 2, "int"), "i": ("i", 4, "int"),
        "q": ("q", 8, "int"), "n": ("q", 8, "int"), "B": ("B", 1, "int"), "H": ("H", 2, "int"),
        "I": ("I", 4, "int"), "Q": ("Q", 8, "int"), "N": ("Q", 8, "int"), "f": ("f", 4, "float"),
        "d": ("d", 8, "float")}

GENERIC = ["dup", "drop", "swap", "over", "rot", "nip", "tuck", "+", "-", "*", "/", "mod", "/mod", "negate",
           "1+", "1-", "abs", "min", "max", "=", "<>", ">", ">=", "<", "<=", "0=", "invert", "and", "or", "xor",
           "lshift", "rshift", "false", "true", "i", "j", "k", ".", "cr", ".s"]


class ForthErr(Exception):
    def __init__(self, kind):
        Exception.__init__(self, kind)
        self.kind = kind


class Halt(Exception):
    pass


class Unspecified(Exception):
    """The program reached behaviour that neither the property nor standard Forth defines (shift count out of
    range, float -> int out of range ...): from here only robustness and self-consistency oracles apply."""


class Budget(Exception):
    pass


def parse_parser(word):
    """'#!h->' -> (repeated, big, kind, nbits) with kind in READ letters | 'varint' | 'zigzag' | 'nbit'."""
    rep = word.startswith("#")
    if rep:
        word = word[1:]
    big = word.startswith("!")
    if big:
        word = word[1:]
    assert word.endswith("->"), word
    core = word[:-2]
    if core in ("varint", "zigzag"):
        return rep, big, core, 0
    if core.endswith("bit"):
        return rep, big, "nbit", int(core[:-3])
    assert core in READ, word
    return rep, big, core, 0


def int_to_f32(v: int) -> float:
    """(float)v with round-to-nearest-even, exactly (float(v) would round twice)."""
    a = abs(v)
    if a < (1 << 24):
        return float(v)
    b = a.bit_length()
    shift = b - 24
    q, r = a >> shift, a & ((1 << shift) - 1)
    half = 1 << (shift - 1)
    if r > half or (r == half and (q & 1)):
        q += 1
    a = q << shift
    return float(-a if v < 0 else a)


def to_f32(x: float) -> float:
    try:
        return struct.unpack("<f", struct.pack("<f", x))[0]
    except OverflowError:
        return float("inf") if x > 0 else float("-inf")


class Output:
    def __init__(self, name, dtype):
        self.name = name
        self.dtype = dtype
        self.items = []     # python values: bool/int/float (float32 kept as exactly representable floats)
        self.raw = None     # for bool outputs fed by memcpy: not needed (bool inputs are 0/1)

    def conv_int(self, v: int):
        d = self.dtype
        if d == "bool":
            return v != 0
        if d.startswith("int") or d.startswith("uint"):
            bits = ITEMSIZE[d] * 8
            v &= (1 << bits) - 1
            if d.startswith("int") and v >= 1 << (bits - 1):
                v -= 1 << bits
            return v
        if d == "float32":
            return int_to_f32(v)
        return float(v)

    def conv_float(self, x: float):
        d = self.dtype
        if d == "float64":
            return x
        if d == "float32":
            return to_f32(x)
        if d == "bool":
            return x != 0       # (bool)nan is true
        # float -> integer: defined only when the truncated value is representable
        if x != x or x in (float("inf"), float("-inf")):
            raise Unspecified("float to int: not finite")
        t = int(x)
        bits = ITEMSIZE[d] * 8
        lo, hi = (-(1 << (bits - 1)), (1 << (bits - 1)) - 1) if d.startswith("int") else (0, (1 << bits) - 1)
        if not (lo <= t <= hi):
            raise Unspecified("float to int: out of range")
        return t

    def tobytes(self) -> bytes:
        code = PACK[self.dtype]
        if self.dtype == "float32":
            out = []
            for x in self.items:
                try:
                    out.append(struct.pack("<f", x))
                except OverflowError:
                    out.append(struct.pack("<f", float("inf") if x > 0 else float("-inf")))
            return b"".join(out)
        return struct.pack("<%d%s" % (len(self.items), code), *self.items)


class Model:
    """One machine: width 32/64, limits, program AST. API mirrors the real one: begin/run/resume/call/reset."""

    def __init__(self, program, width, stack_max, rec_max, budget=20000):
        self.p = program
        self.width = width
        self.stack_max = stack_max
        self.rec_max = rec_max
        self.budget = budget
        self.defs = {name: body for name, body in program["defs"]}
        self.strings = []
        self._index_strings()
        self.inputs_data = {}
        self.reset()
        self.ninstr = 0
        self.unspecified = None

    # -------------------------------------------------------------------------------------------- helpers
    def _index_strings(self):
        # strings are numbered in source order: definitions first (as rendered), then main
        def walk(body):
            for node in body:
                k = node[0]
                if k in ("s", "p"):
                    node_id = len(self.strings)
                    self.strings.append(node[1])
                    self._strid[id(node)] = node_id
                elif k in ("if", "do", "+do", "until", "again"):
                    walk(node[1])
                elif k in ("ifelse", "while"):
                    walk(node[1])
                    walk(node[2])
        self._strid = {}
        for _, body in self.p["defs"]:
            walk(body)
        walk(self.p["main"])

    def wrap(self, v: int) -> int:
        bits = self.width
        v &= (1 << bits) - 1
        if v >= 1 << (bits - 1):
            v -= 1 << bits
        return v

    def reset(self):
        self.stack = []
        self.vars = {v: 0 for v in self.p["vars"]}
        self.outs = None
        self.pos = None
        self.ready = False
        self.gens = []          # stack of suspended coroutines (bottom = main program)
        self.susp = []          # per coroutine: number of frames on the return stack while it is suspended
        self.top_depth = []     # per coroutine: the frame number of its top-level body
        self._trailing = False  # the last yield was a pause at the very end of its coroutine's top-level body
        self.halted = False
        self.do_stack = []      # [i, stop] records (shared by all frames, like the machine's)
        self.error = "none"

    def set_input(self, name, data: bytes):
        self.inputs_data[name] = data

    def begin(self):
        self.reset()
        for name in self.p["inputs"]:
            if name not in self.inputs_data:
                raise KeyError(name)
        self.pos = {name: 0 for name in self.p["inputs"]}
        self.outs = {name: Output(name, dt) for name, dt in self.p["outputs"]}
        self.ready = True
        self.gens = [self._body_top(self.p["main"], 1, None)]
        self.susp = [1]
        self.top_depth = [1]

    @property
    def done(self):
        return len(self.gens) == 0

    # driver-facing: each returns an error name
    def run(self):
        self.begin()
        return self._advance()

    def resume(self):
        if not self.ready:
            self.error = "not_ready"
            return self.error
        if self.done:
            self.error = "is_done"
            return self.error
        if self.error != "none":
            return self.error
        return self._advance()

    def call(self, word):
        if not self.ready:
            self.error = "not_ready"
            return self.error
        if self.error != "none":
            return self.error
        base = self.susp[-1] if self.susp else 0
        if base >= self.rec_max:
            # the called word needs a frame like any other: at the limit the call is refused
            self.error = "recursion_depth_exceeded"
            return self.error
        self.gens.append(self._body_top(self.defs[word], base + 1, word))
        self.susp.append(base + 1)
        self.top_depth.append(base + 1)
        return self._advance()

    def _advance(self):
        g = self.gens[-1]
        try:
            self._trailing = False
            next(g)            # runs until the next pause
            if self._trailing:
                # CALIBRATED: a pause that is the last word of the program (or of a word started with call()) leaves
                # that segment before it suspends: the machine is done (the call is complete) when it stops there
                self._trailing = False
                self.gens.pop()
                self.susp.pop()
                self.top_depth.pop()
            return "none"
        except StopIteration:
            self.gens.pop()
            self.susp.pop()
            self.top_depth.pop()
            return "none"
        except ForthErr as e:
            self.error = e.kind
            return e.kind
        except Halt:
            # CALIBRATED: after halt the machine is not ready any more and reports is_done
            self.ready = False
            self.halted = True
            self.gens = []
            self.susp = []
            self.top_depth = []
            self.do_stack = []
            self.error = "user_halt"
            return "user_halt"

    # -------------------------------------------------------------------------------------------- interpreter
    def _body_top(self, body, depth, word):
        # depth = number of frames on the machine's return stack; the main program is frame 1
        yield from self._body(body, depth, word)

    def _tick(self):
        self.ninstr += 1
        if self.ninstr > self.budget:
            raise Budget()

    def _pop(self):
        if not self.stack:
            raise ForthErr("stack_underflow")
        return self.stack.pop()

    def _need(self, n):
        if len(self.stack) < n:
            raise ForthErr("stack_underflow")

    def _room(self):
        if len(self.stack) >= self.stack_max:
            raise ForthErr("stack_overflow")

    def _push(self, v):
        if len(self.stack) >= self.stack_max:
            raise ForthErr("stack_overflow")
        self.stack.append(self.wrap(v))

    def _enter(self, depth):
        """push of a new frame on top of `depth` frames."""
        if depth == self.rec_max:
            raise ForthErr("recursion_depth_exceeded")

    EXIT = "exit"

    def _body(self, body, depth, word, at_end=None):
        """Executes a segment living in frame number `depth`. Returns EXIT when an `exit` must unwind further."""
        for node in body:
            k = node[0]
            self._tick()
            if k == "lit":
                self._push(node[1])
            elif k == "w":
                self._generic(node[1])
            elif k == "if":
                if self._pop() != 0:
                    self._tick()
                    self._enter(depth)
                    r = yield from self._body(node[1], depth + 1, word)
                    if r == self.EXIT:
                        return r
            elif k == "ifelse":
                branch = node[1] if self._pop() != 0 else node[2]
                self._enter(depth)
                r = yield from self._body(branch, depth + 1, word)
                if r == self.EXIT:
                    return r
            elif k in ("do", "+do"):
                self._need(2)
                start = self.stack.pop()
                stop = self.stack.pop()
                if len(self.do_stack) == self.rec_max:
                    raise ForthErr("recursion_depth_exceeded")
                self.do_stack.append([start, stop])
                mark = len(self.do_stack)
                while self.do_stack[mark - 1][0] < self.do_stack[mark - 1][1]:     # CALIBRATED: test before body
                    self._tick()
                    self._enter(depth)
                    stepped = [False]

                    def step(k=k, mark=mark, stepped=stepped):
                        if k == "+do":
                            self.do_stack[mark - 1][0] += self._pop()
                        else:
                            self.do_stack[mark - 1][0] += 1
                        stepped[0] = True
                    r = yield from self._body(node[1], depth + 1, word, at_end=step)
                    if r == self.EXIT:
                        del self.do_stack[mark - 1:]
                        return r
                    if not stepped[0]:
                        step()
                del self.do_stack[mark - 1:]
            elif k == "until":
                while True:
                    self._enter(depth)
                    r = yield from self._body(node[1], depth + 1, word)
                    if r == self.EXIT:
                        return r
                    self._tick()
                    if self._pop() != 0:
                        break
                    self._tick()
            elif k == "again":
                while True:
                    self._enter(depth)
                    r = yield from self._body(node[1], depth + 1, word)
                    if r == self.EXIT:
                        return r
                    self._tick()
                    self._tick()
            elif k == "while":
                while True:
                    self._enter(depth)
                    r = yield from self._body(node[1], depth + 1, word)
                    if r == self.EXIT:
                        return r
                    self._tick()
                    if self._pop() == 0:
                        break
                    self._enter(depth)
                    r = yield from self._body(node[2], depth + 1, word)
                    if r == self.EXIT:
                        return r
                    self._tick()
            elif k == "call":
                self._enter(depth)
                yield from self._body(self.defs[node[1]], depth + 1, node[1])
            elif k == "recurse":
                self._enter(depth)
                yield from self._body(self.defs[word], depth + 1, word)
            elif k == "exit":
                return self.EXIT
            elif k == "halt":
                raise Halt()
            elif k == "pause":
                # a pause that ends its segment leaves that frame before suspending (matters only for the
                # recursion limit seen by a later call())
                self.susp[-1] = depth - 1 if node is body[-1] else depth
                if node is body[-1] and self.top_depth and depth == self.top_depth[-1]:
                    self._trailing = True
                if node is body[-1] and at_end is not None:
                    # CALIBRATED: a pause that is the last word of a do-loop body ends the body before it suspends: the
                    # loop index is stepped (and the increment of +loop popped) at the pause, not at the resume -
                    # visible only to a word called while the program is paused there
                    at_end()
                yield
            elif k == "var":
                name, op = node[1], node[2]
                if op == "!":
                    self.vars[name] = self._pop()
                elif op == "+!":
                    self.vars[name] = self.wrap(self.vars[name] + self._pop())
                else:
                    self._push(self.vars[name])
            elif k == "in":
                self._input_op(node[1], node[2])
            elif k == "read":
                self._read(node[1], node[2], node[3])
            elif k == "out":
                self._output_op(node[1], node[2])
            elif k == "s":
                self._push(self._strid[id(node)])
            elif k == "p":
                pass
            else:
                raise AssertionError("model cannot execute node %r" % (node,))
        return None

    # -------------------------------------------------------------------------------------------- generic words
    def _generic(self, w):
        st = self.stack
        if w == "dup":
            self._need(1); self._room(); st.append(st[-1])
        elif w == "drop":
            self._need(1); st.pop()
        elif w == "swap":
            self._need(2); st[-1], st[-2] = st[-2], st[-1]
        elif w == "over":
            self._need(2); self._room(); st.append(st[-2])
        elif w == "rot":
            self._need(3); a = st.pop(-3); st.append(a)
        elif w == "nip":
            self._need(2); del st[-2]
        elif w == "tuck":
            self._need(2); self._room(); st.insert(-2, st[-1])
        elif w in ("+", "-", "*", "min", "max", "=", "<>", ">", ">=", "<", "<=", "and", "or", "xor"):
            self._need(2)
            b = st.pop(); a = st.pop()
            if w == "+": r = a + b
            elif w == "-": r = a - b
            elif w == "*": r = a * b
            elif w == "min": r = min(a, b)
            elif w == "max": r = max(a, b)
            elif w == "=": r = -1 if a == b else 0
            elif w == "<>": r = -1 if a != b else 0
            elif w == ">": r = -1 if a > b else 0
            elif w == ">=": r = -1 if a >= b else 0
            elif w == "<": r = -1 if a < b else 0
            elif w == "<=": r = -1 if a <= b else 0
            elif w == "and": r = a & b
            elif w == "or": r = a | b
            else: r = a ^ b
            st.append(self.wrap(r))
        elif w in ("/", "mod"):
            self._need(2)
            b = st.pop()
            if b == 0:
                raise ForthErr("division_by_zero")     # CALIBRATED: the divisor is already popped
            a = st.pop()
            st.append(self.wrap(a // b if w == "/" else a % b))      # floor division / modulo, wrapping
        elif w == "/mod":
            self._need(2)
            if st[-1] == 0:
                raise ForthErr("division_by_zero")
            b = st.pop(); a = st.pop()
            st.append(self.wrap(a % b)); st.append(self.wrap(a // b))
        elif w == "negate":
            self._need(1); st[-1] = self.wrap(-st[-1])
        elif w == "1+":
            self._need(1); st[-1] = self.wrap(st[-1] + 1)
        elif w == "1-":
            self._need(1); st[-1] = self.wrap(st[-1] - 1)
        elif w == "abs":
            self._need(1); st[-1] = self.wrap(abs(st[-1]))
        elif w == "0=":
            self._need(1); st[-1] = -1 if st[-1] == 0 else 0
        elif w == "invert":
            self._need(1); st[-1] = self.wrap(~st[-1])
        elif w in ("lshift", "rshift"):
            self._need(2)
            n = st.pop(); a = st.pop()
            if not (0 <= n < self.width):
                st.append(0)
                raise Unspecified("shift count out of range")
            st.append(self.wrap(a << n) if w == "lshift" else a >> n)     # rshift is arithmetic (CALIBRATED)
        elif w == "false":
            self._push(0)
        elif w == "true":
            self._push(-1)
        elif w == "i":
            self._push(self.do_stack[-1][0])
        elif w == "j":
            self._push(self.do_stack[-2][0])
        elif w == "k":
            self._push(self.do_stack[-3][0])
        elif w == ".":
            self._pop()
        elif w in ("cr", ".s"):
            pass
        else:
            raise AssertionError("unknown generic word %r" % w)

    # -------------------------------------------------------------------------------------------- inputs
    def _input_op(self, name, op):
        data = self.inputs_data[name]
        if op == "len":
            self._push(len(data))
        elif op == "pos":
            self._push(self.pos[name])
        elif op == "end":
            self._push(-1 if self.pos[name] == len(data) else 0)
        elif op == "seek":
            to = self._pop()
            if to < 0 or to > len(data):
                raise ForthErr("seek_beyond")
            self.pos[name] = to
        elif op == "skip":
            n = self._pop()
            nxt = self.pos[name] + n
            if nxt < 0 or nxt > len(data):
                raise ForthErr("skip_beyond")
            self.pos[name] = nxt

    def _take(self, name, n):
        data = self.inputs_data[name]
        p = self.pos[name]
        if n < 0 or p + n > len(data):
            raise ForthErr("read_beyond")
        self.pos[name] = p + n
        return data[p:p + n]

    def _read(self, name, parser, dest):
        rep, big, kind, nbits = parse_parser(parser)
        count = 1
        if rep:
            count = self._pop()
            if count < 0:
                raise ForthErr("read_beyond")      # a negative number of items cannot be read
        out = None if dest == "stack" else self.outs[dest]
        if kind in ("varint", "zigzag"):
            for _ in range(count):
                shift = 0
                result = 0
                while True:
                    byte = self._take(name, 1)[0]
                    if shift == 63:
                        raise ForthErr("varint_too_big")
                    result |= (byte & 0x7F) << shift
                    shift += 7
                    if not (byte & 0x80):
                        break
                if kind == "zigzag":
                    value = (result >> 1) ^ -(result & 1)
                    if out is None:
                        self._push(value)
                    else:
                        out.items.append(out.conv_int(self.wrap(value)))     # CALIBRATED: goes through the cell type
                else:
                    if out is None:
                        self._push(result)
                    else:
                        out.items.append(out.conv_int(result))
            return
        if kind == "nbit":
            mask = (1 << nbits) - 1
            if count == 0:
                return
            data = 0
            have = 0
            first = True
            remaining = count
            while remaining:
                if first or have < nbits:
                    first = False
                    b = self._take(name, 1)[0]
                    if big:
                        b = int("{:08b}".format(b)[::-1], 2)
                    data |= b << have
                    have += 8
                    continue
                v = data & mask
                data >>= nbits
                have -= nbits
                # bits of fully consumed bytes are dropped byte-wise in the machine; equivalent here
                if out is None:
                    self._push(v)
                else:
                    out.items.append(out.conv_int(self.wrap(v)))
                remaining -= 1
            return
        code, size, vkind = READ[kind]
        raw = self._take(name, count * size)
        if count == 0:
            return
        vals = struct.unpack((">" if big else "<") + "%d%s" % (count, code), raw)
        if out is None:
            for v in vals:
                if vkind == "float":
                    if v != v or v in (float("inf"), float("-inf")):
                        raise Unspecified("float to cell: not finite")
                    t = int(v)
                    if not (-(1 << (self.width - 1)) <= t < (1 << (self.width - 1))):
                        raise Unspecified("float to cell: out of range")
                    self._push(t)
                elif vkind == "bool":
                    self._push(1 if v else 0)
                else:
                    self._push(v)
        else:
            for v in vals:
                if vkind == "float":
                    out.items.append(out.conv_float(v))
                elif vkind == "bool":
                    out.items.append(out.conv_int(1 if v else 0))
                else:
                    out.items.append(out.conv_int(v))

    # -------------------------------------------------------------------------------------------- outputs
    def _output_op(self, name, op):
        out = self.outs[name]
        if op == "<-":
            v = self._pop()
            out.items.append(out.conv_int(v))
        elif op == "+<-":
            v = self._pop()
            prev = out.items[-1] if out.items else 0
            d = out.dtype
            if d == "bool":
                out.items.append(bool(prev) or (v != 0))
            elif d == "float32":
                out.items.append(to_f32(prev + int_to_f32(v)))
            elif d == "float64":
                out.items.append(prev + float(v))
            else:
                out.items.append(out.conv_int(int(prev) + out.conv_int(v)))
        elif op == "dup":
            n = self._pop()
            if not out.items:
                raise ForthErr("rewind_beyond")
            if n > 0:
                if n > 100000 or len(out.items) + n > 400000:
                    raise Budget()      # a legal but enormous output: outside the explored size bound
                out.items.extend([out.items[-1]] * n)
        elif op == "len":
            self._push(len(out.items))
        elif op == "rewind":
            n = self._pop()
            if n < 0 or n > len(out.items):
                raise ForthErr("rewind_beyond")     # a negative count cannot lengthen the output
            if n:
                del out.items[len(out.items) - n:]

    # -------------------------------------------------------------------------------------------- observation
    def state(self):
        outs = []
        if self.outs is not None:
            for name, dt in self.p["outputs"]:
                o = self.outs[name]
                outs.append([name, dt, len(o.items), o.tobytes().hex()])
        pos = []
        for name in self.p["inputs"]:
            pos.append(self.pos[name] if self.pos is not None else -1)
        return {"ready": self.ready, "done": self.done,
                "stack": list(self.stack), "vars": [self.vars[v] for v in self.p["vars"]],
                "outs": outs, "pos": pos}


# ------------------------------------------------------------------------------------------------- rendering
def render_body(body, sep=" "):
    parts = []
    for node in body:
        k = node[0]
        if k == "lit":
            # a third item asks for the hexadecimal spelling (same number, other branch of the parser)
            parts.append(("0x%x" if node[2] == "x" else "0x%X") % node[1] if len(node) > 2 and node[1] >= 0 else str(node[1]))
        elif k == "w":
            parts.append(node[1])
        elif k == "if":
            parts.append("if " + render_body(node[1]) + " then")
        elif k == "ifelse":
            parts.append("if " + render_body(node[1]) + " else " + render_body(node[2]) + " then")
        elif k == "do":
            parts.append("do " + render_body(node[1]) + " loop")
        elif k == "+do":
            parts.append("do " + render_body(node[1]) + " +loop")
        elif k == "until":
            parts.append("begin " + render_body(node[1]) + " until")
        elif k == "again":
            parts.append("begin " + render_body(node[1]) + " again")
        elif k == "while":
            parts.append("begin " + render_body(node[1]) + " while " + render_body(node[2]) + " repeat")
        elif k == "call":
            parts.append(node[1])
        elif k in ("recurse", "exit", "halt", "pause"):
            parts.append(k)
        elif k == "var":
            parts.append(node[1] + " " + node[2])
        elif k == "in":
            parts.append(node[1] + " " + node[2])
        elif k == "read":
            parts.append(node[1] + " " + node[2] + " " + node[3])
        elif k == "out":
            parts.append(node[1] + " " + node[2] + (" stack" if node[2] in ("<-", "+<-") else ""))
        elif k == "s":
            parts.append('s" ' + node[1] + '"')
        elif k == "p":
            parts.append('." ' + node[1] + '"')
        elif k == "raw":
            parts.append(node[1])
        else:
            raise AssertionError(node)
    return " ".join(parts)


def render(program) -> str:
    lines = []
    for v in program["vars"]:
        lines.append("variable " + v)
    for v in program["inputs"]:
        lines.append("input " + v)
    for name, dt in program["outputs"]:
        lines.append("output %s %s" % (name, dt))
    for name, body in program["defs"]:
        lines.append(": %s %s ;" % (name, render_body(body)))
    lines.append(render_body(program["main"]))
    return "\n".join(lines) + "\n"


def count_nodes(body) -> int:
    n = 0
    for node in body:
        n += 1
        if node[0] in ("if", "do", "+do", "until", "again"):
            n += count_nodes(node[1])
        elif node[0] in ("ifelse", "while"):
            n += count_nodes(node[1]) + count_nodes(node[2])
    return n
