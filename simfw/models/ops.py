"""The operation library shared by the pool (C12) and lazy (C18) machines (DESIGN.md 9.2).

An op is a JSON-able dict {"op": name, ...literal arguments...}; operand arrays are referred to by pool slot.
gen_op draws one, apply executes it through the C++ Content API and returns a new content handle.
"""
from __future__ import annotations

import struct

from . import layout_gen as lg

REDUCERS = ["count", "count_nonzero", "sum", "prod", "any", "all", "min", "max", "argmin", "argmax"]
OPCODE = {"at": 0, "range": 1, "field": 2, "fields": 3, "carry": 4, "num": 5, "flatten": 6, "flatten_offsets": 7,
          "localindex": 8, "reduce": 9, "sort": 10, "argsort": 11, "combinations": 12, "rpad": 13, "rpad_and_clip": 14,
          "fillna": 15, "merge": 16, "merge_as_union": 17, "simplify": 18, "deep_copy": 19, "numbers_to_type": 20,
          "unique": 21, "shallow_copy": 23, "getitem_nothing": 24, "range_nowrap": 28, "mergemany": 29, "with_identities": 30, "helper": 31}
TYPES = ["bool", "int8", "int32", "int64", "uint8", "uint64", "float32", "float64"]

# kinds of op, for swarm selection
# (Content::unique is not exposed to Python and not part of the user-facing operation set: not generated)
KINDS = ["at", "range", "field", "slice", "carry", "num", "flatten", "localindex", "reduce", "sort", "combinations", "rpad",
         "fillna", "merge", "simplify", "copy", "totype", "helper"]
# the layout helpers of particular node classes that the Python layer calls (ak.to_regular / from_regular, broadcasting,
# mask conversions); a node of another class answers with an ordinary error
HELPERS = ["toRegularArray", "toListOffsetArray64", "broadcast_tooffsets64", "project", "bytemask", "to_other_option",
           "contiguous_or_astuple", "compact_offsets64", "setitem_field"]


def int64_spec(vals):
    return {"k": "numpy", "dtype": "int64", "buf": struct.pack("<%dq" % len(vals), *vals).hex(), "shape": [len(vals)],
            "strides": [8], "byteoffset": 0, "unit": ""}


def bool_spec(vals):
    return {"k": "numpy", "dtype": "bool", "buf": bytes(1 if v else 0 for v in vals).hex(), "shape": [len(vals)],
            "strides": [1], "byteoffset": 0, "unit": ""}


def scalar_spec(dt, v):
    return {"k": "numpy", "dtype": dt, "buf": lg.pack_items(dt, [v]).hex(), "shape": [1], "strides": [lg.DTYPES[dt][2]],
            "byteoffset": 0, "unit": ""}


def gen_axis(r, depth):
    if r.random() < 0.8:
        return r.randint(-depth, depth - 1) if depth > 0 else 0
    return r.choice([-4, -3, 3, 4, 5])


def gen_index(r, n):
    if n == 0:
        return r.choice([0, -1, 1])
    if r.random() < 0.85:
        return r.randint(-n, n - 1)
    return r.choice([n, n + 1, -n - 1, -n - 5, 100])


def gen_range(r, n):
    def one():
        if r.random() < 0.2:
            return None
        return r.randint(-n - 2, n + 2)
    return one(), one()


def gen_slice_items(r, info, nslots=None):
    items = _gen_slice_items(r, info)
    arraylike = sum(1 for it in items if it["k"] in ("ints", "bools", "missing", "jagged"))
    if arraylike == 1 and r.random() < 0.12:
        # the single integer index array is two-dimensional (a[np.array([[0, 1], [2, 0]])])
        for it in items:
            if it["k"] == "ints":
                cols = r.choice([0, 1, 2, 2, 3])
                rows = r.choice([0, 1, 2, 2, 3])
                pool_vals = it["v"] or [0]
                it.clear()
                it.update({"k": "ints2d", "cols": cols, "v": [[r.choice(pool_vals) for _ in range(cols)] for _ in range(rows)]})
    for it in items:
        if it["k"] in ("ints", "bools", "missing", "jagged"):
            # (only as the single array-like item: several index arrays in one slice must broadcast, the Python layer
            # refuses anything else before the C++ slice is built)
            if nslots and arraylike == 1 and r.random() < 0.15:
                # the index array is another array of the pool (a root or an earlier result), as in a[b]
                it.clear()
                it.update({"k": "fromslot", "slot": r.randrange(nslots)})
            # the caller lets go of the index array before the slice is applied: the slice item must own what it reads
            it["drop"] = r.random() < 0.5
    return items


def _gen_slice_items(r, info):
    n, depth, keys = info["length"], info["depth"], info["keys"]
    inner = info.get("inner", 3)       # size of the lists one level down (so that "exactly the size" is hit often)
    if depth >= 2 and r.random() < 0.06:
        # a[start:stop, i] with i at and around the ends of the inner lists
        a, b = gen_range(r, n)
        return [{"k": "range", "start": a, "stop": b, "step": r.choice([None, None, 1, 2, -1])},
                {"k": "at", "i": r.choice([inner, inner - 1, -inner, -inner - 1, 0, inner + 1])}]
    items = []
    nitems = r.choice([1, 1, 1, 2, 2, 3])
    used_ellipsis = False
    cur_n = n
    adv_len = None      # index arrays in one slice must broadcast (the Python layer refuses anything else)
    for level in range(nitems):
        x = r.random()
        if adv_len is not None and 0.6 <= x < 0.8:
            # a further integer array of the same length as the first one
            items.append({"k": "ints", "v": [gen_index(r, 2) for _ in range(adv_len)]})
            continue
        if adv_len is not None and (0.6 <= x < 0.94 and not (0.8 <= x < 0.88)):
            x = 0.3
        if x < 0.2:
            i = gen_index(r, cur_n if level == 0 else inner)
            if level > 0 and r.random() < 0.2:
                i = r.choice([inner, inner, -inner - 1])       # exactly one past the end of the inner lists
            items.append({"k": "at", "i": i})
        elif x < 0.5:
            a, b = gen_range(r, cur_n if level == 0 else inner)
            step = r.choice([None, None, 1, 2, -1, -2, 3])
            if r.random() < 0.04:
                # steps that do not fit 32 bits, or whose multiples do not fit 64 (a[::2**40] is the first item)
                step = r.choice([2**31, 2**32, 2**32 + 1, 2**40, 2**62 + 1, 2**63 - 2, -(2**32), -(2**62) - 1, -(2**63) + 1])
            items.append({"k": "range", "start": a, "stop": b, "step": step})
        elif x < 0.55 and not used_ellipsis:
            items.append({"k": "ellipsis"})
            used_ellipsis = True
        elif x < 0.6:
            items.append({"k": "newaxis"})
        elif x < 0.72:
            m = cur_n if level == 0 else r.choice([2, inner])
            cnt = r.choice([0, 1, 2, 3, 5])
            items.append({"k": "ints", "v": [gen_index(r, m) if r.random() < 0.9 else m for _ in range(cnt)] if m > 0 else []})
            adv_len = len(items[-1]["v"])
        elif x < 0.8 and level == 0:
            items.append({"k": "bools", "v": [r.random() < 0.5 for _ in range(cur_n + r.choice([0, 0, 0, 1, -1]) if cur_n > 0 else 0)]})
            adv_len = sum(1 for b in items[-1]["v"] if b)
        elif x < 0.88 and keys:
            if r.random() < 0.7:
                items.append({"k": "field", "key": r.choice(keys + ["nosuch"]) if r.random() < 0.9 else "nosuch"})
            else:
                items.append({"k": "fields", "keys": r.sample(keys, r.randint(0, len(keys)))})
        elif x < 0.94 and level == 0:
            cnt = r.choice([1, 2, 3])
            items.append({"k": "missing", "v": [None if r.random() < 0.3 else gen_index(r, cur_n) for _ in range(cnt)] if cur_n > 0 else [None]})
            adv_len = len(items[-1]["v"])
        elif level == 0 and depth >= 2:
            # a jagged slice: one list of indexes per outer element
            items.append({"k": "jagged", "v": [[r.randint(-2, 1) for _ in range(r.choice([0, 1, 2]))] for _ in range(cur_n)]})
            adv_len = cur_n
        else:
            items.append({"k": "range", "start": None, "stop": None, "step": None})
    return items


def gen_op(r, info, nslots, enabled=None):
    """info: {"length", "depth", "keys"} of the operand (estimates are fine). returns an op dict (without operand)."""
    kinds = [k for k in KINDS if enabled is None or enabled.get(k, True)]
    n, depth, keys = info["length"], max(1, info["depth"]), info["keys"]
    k = r.choice(kinds)
    if k == "at":
        return {"op": "at", "i": gen_index(r, n)}
    if k == "range":
        a, b = gen_range(r, n)
        if r.random() < 0.2:
            lo = r.randint(0, n)
            return {"op": "range_nowrap", "start": lo, "stop": r.randint(lo, n)}
        return {"op": "range", "start": 0 if a is None else a, "stop": n if b is None else b}
    if k == "field":
        if keys and r.random() < 0.9:
            if r.random() < 0.7:
                return {"op": "field", "key": r.choice(keys)}
            return {"op": "fields", "keys": r.sample(keys, r.randint(0, len(keys)))}
        return {"op": "field", "key": "nosuch"}
    if k == "slice":
        items = gen_slice_items(r, info, nslots)
        op = {"op": "slice", "items": items}
        more = [it["slot"] for it in items if it["k"] == "fromslot"]
        if more:
            op["more"] = more
        return op
    if k == "carry":
        cnt = r.choice([0, 1, 2, 3, 6])
        idx = [r.randrange(n) for _ in range(cnt)] if n > 0 else []
        return {"op": "carry", "index": idx, "lazy": r.random() < 0.5}
    if k == "num":
        return {"op": "num", "axis": gen_axis(r, depth)}
    if k == "flatten":
        return {"op": r.choice(["flatten", "flatten", "flatten_offsets"]), "axis": gen_axis(r, depth)}
    if k == "localindex":
        return {"op": "localindex", "axis": gen_axis(r, depth)}
    if k == "reduce":
        return {"op": "reduce", "reducer": r.randrange(10), "axis": gen_axis(r, depth), "mask": r.random() < 0.5,
                "keepdims": r.random() < 0.3}
    if k == "sort":
        return {"op": r.choice(["sort", "argsort"]), "axis": gen_axis(r, depth), "ascending": r.random() < 0.6,
                "stable": r.random() < 0.5}
    if k == "combinations":
        return {"op": "combinations", "n": r.choice([0, 1, 2, 2, 3, 4]), "replacement": r.random() < 0.4, "axis": gen_axis(r, depth)}
    if k == "rpad":
        return {"op": r.choice(["rpad", "rpad_and_clip"]), "target": r.choice([0, 1, 2, 3, 5]), "axis": gen_axis(r, depth)}
    if k == "fillna":
        dt = r.choice(["int64", "float64", "bool"])
        return {"op": "fillna", "dtype": dt, "value": lg.rand_scalar(r, dt) if dt != "float64" else r.choice([0.0, 1.5, -2.0])}
    if k == "merge":
        other = r.randrange(nslots)
        x = r.random()
        if x < 0.6:
            return {"op": "merge", "other": other}
        if x < 0.8:
            return {"op": "merge_as_union", "other": other}
        return {"op": "mergemany", "other": other, "more": [r.randrange(nslots) for _ in range(r.choice([0, 1, 2]))]}
    if k == "simplify":
        return {"op": "simplify"}
    if k == "helper":
        what = r.choice(HELPERS)
        fitting = {"listoffset": HELPERS[0:3] + HELPERS[7:8], "list": HELPERS[0:3] + HELPERS[7:8],
                   "regular": HELPERS[0:3] + HELPERS[7:8], "indexed": HELPERS[3:5], "bytemasked": HELPERS[3:6],
                   "bitmasked": HELPERS[3:6], "unmasked": HELPERS[3:6], "numpy": [HELPERS[0], HELPERS[6]],
                   "record": [HELPERS[6], HELPERS[8], HELPERS[8]]}.get(info.get("top"))
        if fitting and r.random() < 0.8:
            what = r.choice(fitting)       # mostly a helper the operand's node class has
        op = {"op": "helper", "what": what, "flag": r.random() < 0.5}
        if what in ("broadcast_tooffsets64", "setitem_field"):
            op["other"] = r.randrange(nslots)
        if what == "broadcast_tooffsets64" and r.random() < 0.6:
            # the array's own list lengths, some of them changed: the broadcast that fits (all zero) or one that has to
            # be refused - a list longer or shorter than asked for, early or late in the array
            del op["other"]
            op["deltas"] = r.choice([[0], [0], [-1], [-2, 0], [0, 0, -1], [1], [0, 1], [-1, 1], [0, 0, 0, -3]])
        if what == "setitem_field":
            # a name the record does not have yet (setitem_field appends; a record with the same key twice is not
            # something the Python layer ever builds)
            op["key"] = r.choice([k for k in ["n w", "new", "x", "y2"] if k not in keys])
        return op
    if k == "copy":
        return {"op": r.choice(["deep_copy", "shallow_copy", "getitem_nothing", "with_identities"]),
                "flags": [r.random() < 0.5 for _ in range(3)]}
    if k == "totype":
        return {"op": "numbers_to_type", "name": r.choice(TYPES)}
    return {"op": "unique"}


class _Hooked:
    """node proxy that fires `before` once, right before the library call of the operation itself (after every
    helper array has been built), so that a digest taken there brackets exactly the operation."""

    def __init__(self, node, before):
        self._node = node
        self._before = before

    def op(self, *a, **kw):
        if self._before:
            self._before()
        return self._node.op(*a, **kw)

    def getitem(self, *a, **kw):
        if self._before:
            self._before()
        return self._node.getitem(*a, **kw)

    def __getattr__(self, name):
        return getattr(self._node, name)


def apply(node, op, a, slot_handle, tmp, before=None):
    """runs op on content handle a; slot_handle(i) resolves another operand; tmp collects helper handles to drop."""
    node = _Hooked(node, before)
    k = op["op"]
    if k == "at":
        return node.op(0, a, iargs=[op["i"]])
    if k in ("range", "range_nowrap"):
        return node.op(OPCODE[k], a, iargs=[op["start"], op["stop"]])
    if k == "field":
        return node.op(2, a, sarg=op["key"])
    if k == "fields":
        return node.op(3, a, sarg=",".join(op["keys"]))
    if k == "slice":
        s = node.slice_new()
        tmp.append(s)

        def add_array_item(s, h, it):
            if it.get("drop"):
                # a copy in library-owned buffers, released before the slice is used: only the slice item keeps it alive
                h2 = node._node.op(19, h, iargs=[1, 1, 1])      # a helper, not the operation: no hook
                try:
                    node.slice_add(s, 4, arr=h2)
                finally:
                    node.drop(h2)
            else:
                node.slice_add(s, 4, arr=h)
        for it in op["items"]:
            ik = it["k"]
            if ik == "at":
                node.slice_add(s, 0, [it["i"]])
            elif ik == "range":
                node.slice_add(s, 1, [it["start"] or 0, it["stop"] or 0, it["step"] or 0,
                                      0 if it["start"] is None else 1, 0 if it["stop"] is None else 1,
                                      0 if it["step"] is None else 1])
            elif ik == "ellipsis":
                node.slice_add(s, 2)
            elif ik == "newaxis":
                node.slice_add(s, 3)
            elif ik == "ints":
                h = lg.realize(node, int64_spec(it["v"]))
                tmp.append(h)
                add_array_item(s, h, it)
            elif ik == "bools":
                h = lg.realize(node, bool_spec(it["v"]))
                tmp.append(h)
                add_array_item(s, h, it)
            elif ik == "fromslot":
                add_array_item(s, slot_handle(it["slot"]), it)
            elif ik == "ints2d":
                flat = [x for row in it["v"] for x in row]
                node.slice_add(s, 7, [2, len(it["v"]), it["cols"]] + flat)
            elif ik == "field":
                node.slice_add(s, 5, sarg=it["key"])
            elif ik == "fields":
                node.slice_add(s, 6, sarg=",".join(it["keys"]))
            elif ik == "missing":
                vals = [v for v in it["v"] if v is not None]
                idx = []
                j = 0
                for v in it["v"]:
                    if v is None:
                        idx.append(-1)
                    else:
                        idx.append(j)
                        j += 1
                spec = {"k": "indexed", "option": True, "index": {"d": idx, "off": 0, "f": "i64"}, "n": len(idx),
                        "content": int64_spec(vals)}
                h = lg.realize(node, spec)
                tmp.append(h)
                add_array_item(s, h, it)
            elif ik == "jagged":
                flat = [x for sub in it["v"] for x in sub]
                offs = [0]
                for sub in it["v"]:
                    offs.append(offs[-1] + len(sub))
                spec = {"k": "listoffset", "offsets": {"d": offs, "off": 0, "f": "i64"}, "n": len(it["v"]),
                        "content": int64_spec(flat)}
                h = lg.realize(node, spec)
                tmp.append(h)
                add_array_item(s, h, it)
        return node.getitem(a, s)
    if k == "carry":
        h = lg.realize(node, int64_spec(op["index"]))
        tmp.append(h)
        return node.op(4, a, h, iargs=[1 if op["lazy"] else 0])
    if k in ("num", "flatten", "flatten_offsets", "localindex"):
        return node.op(OPCODE[k], a, iargs=[op["axis"]])
    if k == "reduce":
        return node.op(9, a, iargs=[op["reducer"], op["axis"], 1 if op["mask"] else 0, 1 if op["keepdims"] else 0])
    if k in ("sort", "argsort"):
        return node.op(OPCODE[k], a, iargs=[op["axis"], 1 if op["ascending"] else 0, 1 if op["stable"] else 0])
    if k == "combinations":
        return node.op(12, a, iargs=[op["n"], 1 if op["replacement"] else 0, op["axis"]])
    if k in ("rpad", "rpad_and_clip"):
        return node.op(OPCODE[k], a, iargs=[op["target"], op["axis"]])
    if k == "fillna":
        h = lg.realize(node, scalar_spec(op["dtype"], op["value"]))
        tmp.append(h)
        return node.op(15, a, h)
    if k in ("merge", "merge_as_union"):
        return node.op(OPCODE[k], a, slot_handle(op["other"]))
    if k == "mergemany":
        return node.op(29, a, slot_handle(op["other"]), iargs=[slot_handle(i) for i in op["more"]])
    if k == "simplify":
        return node.op(18, a)
    if k == "deep_copy":
        return node.op(19, a, iargs=[1 if f else 0 for f in op["flags"]])
    if k == "shallow_copy":
        return node.op(23, a)
    if k == "with_identities":
        return node.op(30, a)
    if k == "helper":
        return node.op(31, a, slot_handle(op["other"]) if "other" in op else 0,
                       iargs=[HELPERS.index(op["what"]), 1 if op["flag"] else 0] + list(op.get("deltas") or []),
                       sarg=op.get("key", ""))
    if k == "getitem_nothing":
        return node.op(24, a)
    if k == "numbers_to_type":
        return node.op(20, a, sarg=op["name"])
    if k == "unique":
        return node.op(21, a)
    raise AssertionError(op)


def op_class(op):
    k = op["op"]
    if k == "slice":
        return "slice:" + "+".join(i["k"] for i in op["items"])
    if k == "reduce":
        return "reduce:" + REDUCERS[op["reducer"]]
    if k == "helper":
        return "helper:" + op["what"]
    return k
