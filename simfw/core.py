"""Shared machinery of the simulator: seeds, run records, worker pool, replay files, shrinking, evidence.

One *run* = machine.generate(Random(run_seed)) -> a concrete JSON case (the plan: workload, schedule, knob values,
fault script), then machine.execute(node, case) -> Outcome.  A run is a pure function of (run_seed, code): nothing
in here reads a clock, a PID, a hash() of a str or an address on a path that influences a case or its log.
"""
from __future__ import annotations

import hashlib
import json
import os
import random
import select
import signal
import struct
import sys
import time
import traceback

VERIF = os.path.dirname(os.path.dirname(os.path.abspath(__file__)))
REGRESSION = os.path.join(VERIF, "replays", "regression")
# a check run on a scratch tree (mutants) must not overwrite the evidence and replays of the real one
_OUT = os.environ.get("AWSIM_OUT_DIR")
REPLAYS = os.path.join(_OUT, "replays") if _OUT else os.path.join(VERIF, "replays")
EVIDENCE = os.path.join(_OUT, "evidence") if _OUT else os.path.join(VERIF, "evidence")

MASK64 = (1 << 64) - 1


def splitmix64(x: int) -> int:
    x = (x + 0x9E3779B97F4A7C15) & MASK64
    z = x
    z = ((z ^ (z >> 30)) * 0xBF58476D1CE4E5B9) & MASK64
    z = ((z ^ (z >> 27)) * 0x94D049BB133111EB) & MASK64
    return z ^ (z >> 31)


def run_seed(verif_seed: int, prop: str, index: int) -> int:
    h = int.from_bytes(hashlib.sha256(prop.encode()).digest()[:8], "big")
    return splitmix64(splitmix64((verif_seed & MASK64) ^ h) ^ (index & MASK64))


# ----------------------------------------------------------------------------------------------- outcome of one run
class Violation(Exception):
    """A property violation found by an oracle. cls = stable violation class (what the shrinker must preserve)."""

    def __init__(self, oracle: str, cls: str, detail=None, at=None):
        Exception.__init__(self, "%s/%s" % (oracle, cls))
        self.oracle = oracle
        self.cls = cls
        self.detail = detail
        self.at = at

    def record(self):
        return {"oracle": self.oracle, "class": self.cls, "detail": self.detail, "at": self.at}


class Discard(Exception):
    """The generated case is outside the domain (e.g. the model says the program does not terminate)."""


class Recorder:
    """Event log of one run. The digest covers every event and every observed value."""

    def __init__(self, keep_events=False):
        self._h = hashlib.sha256()
        self.events = [] if keep_events else None
        self.n = 0
        self.faults = {}      # kind -> fired count
        self.probes = {}      # name -> count
        self.states = set()   # abstract states reached (hashable, small)
        self.ticks = 0        # simulated time: API calls (+ VM instructions for forth)

    def ev(self, *parts):
        self.n += 1
        s = json.dumps(parts, sort_keys=True, default=_json_default, separators=(",", ":"))
        self._h.update(s.encode())
        self._h.update(b"\n")
        if self.events is not None:
            self.events.append(parts)

    def fault(self, kind, n=1):
        self.faults[kind] = self.faults.get(kind, 0) + n

    def probe(self, name, n=1):
        self.probes[name] = self.probes.get(name, 0) + n

    def state(self, s):
        self.states.add(s)

    def digest(self):
        return self._h.hexdigest()


def _json_default(o):
    if isinstance(o, bytes):
        return {"__bytes__": o.hex()}
    if isinstance(o, (set, frozenset)):
        return sorted(o)
    if isinstance(o, tuple):
        return list(o)
    raise TypeError(type(o))


def stable_hash(obj) -> str:
    return hashlib.sha256(json.dumps(obj, sort_keys=True, default=_json_default,
                                     separators=(",", ":")).encode()).hexdigest()[:16]


# ----------------------------------------------------------------------------------------------- worker pool
class WorkerDeath:
    def __init__(self, index, how):
        self.index = index
        self.how = how   # "signal:<n>" | "exit:<n>" | "timeout"


def _worker_main(wfd, machine, libpath, indices, verif_seed, prop, opts):
    """Child process: runs the given indices in order; one JSON line per result on wfd."""
    from .node import Node
    out = os.fdopen(wfd, "w", buffering=1)
    # the node may print (Forth '.' words): keep our protocol pipe clean
    devnull = os.open(os.devnull, os.O_WRONLY)
    os.dup2(devnull, 1)
    if not opts.get("keep_stderr"):
        pass
    signal.signal(signal.SIGALRM, signal.SIG_DFL)   # a hang inside C++ is ended by the kernel
    try:
        node = Node(libpath)
    except Exception as e:
        out.write(json.dumps({"t": "fatal", "err": "cannot load node: %r" % (e,)}) + "\n")
        os._exit(3)
    per_run_timeout = opts.get("run_timeout", 20.0)
    deadline = opts.get("deadline")
    for idx in indices:
        if deadline is not None and time.time() > deadline:
            break
        out.write(json.dumps({"t": "start", "i": idx}) + "\n")
        signal.setitimer(signal.ITIMER_REAL, per_run_timeout)
        t_run = time.time()
        stall = os.environ.get("AWSIM_TEST_STALL")      # self-test of the watchdog path: "<index>:<flag file>" - the
        if stall and stall.split(":")[0] == str(idx) and not os.path.exists(stall.split(":", 1)[1]):  # first execution
            open(stall.split(":", 1)[1], "w").close()   # of that run loses its time slice (as under machine load)
            time.sleep(per_run_timeout + 5)
        try:
            res = run_one(machine, node, verif_seed, prop, idx, opts)
        except Exception:
            res = {"kind": "harness_error", "trace": traceback.format_exc()}
        signal.setitimer(signal.ITIMER_REAL, 0)
        res["dt"] = round(time.time() - t_run, 3)    # wall time of the run: reporting only, never part of a digest
        res["t"] = "end"
        res["i"] = idx
        out.write(json.dumps(res, default=_json_default) + "\n")
    out.write(json.dumps({"t": "bye"}) + "\n")
    out.flush()
    os._exit(0)


def run_one(machine, node, verif_seed, prop, idx, opts):
    """Generate and execute run number idx. Returns a JSON-able result dict."""
    seed = run_seed(verif_seed, prop, idx)
    rng = random.Random(seed)
    perturb = opts.get("perturb")
    if perturb is None:
        perturb = 1 + (seed >> 8) % 254
    node.perturb(perturb)
    try:
        case = machine.generate(rng, opts)
    except Discard as d:
        return {"kind": "discard", "why": str(d)}
    return execute_case(machine, node, case, opts, seed=seed, perturb=perturb)


def execute_case(machine, node, case, opts, seed=None, perturb=0xA5):
    rec = Recorder(keep_events=opts.get("keep_events", False))
    rec.perturb = perturb      # the allocator fill byte in force (machines may flip it to cross-check a result)
    node.perturb(perturb)
    res = {"kind": "ok"}
    try:
        node.reset()
        machine.execute(node, case, rec, opts)
    except Violation as v:
        res = {"kind": "violation", "violation": v.record(), "case": case}
    except Discard as d:
        res = {"kind": "discard", "why": str(d)}
    finally:
        try:
            node.reset()
        except Exception:
            pass
    res["digest"] = rec.digest()
    res["faults"] = rec.faults
    res["probes"] = rec.probes
    res["states"] = sorted(rec.states)
    res["ticks"] = rec.ticks
    res["events"] = rec.n
    res["sig"] = machine.signature(case) if res["kind"] != "discard" else None
    if opts.get("want_case") and "case" not in res:
        res["case"] = case
    if rec.events is not None:
        res["log"] = rec.events
    if seed is not None:
        res["seed"] = seed
    return res


def run_batch(machine, libpath, indices, verif_seed, prop, opts, workers=None, on_result=None, asan=False):
    """Run the given run indices on `workers` forked processes (index i goes to worker i % workers, so what a run
    does never depends on the worker count). Returns (results_by_index, deaths)."""
    workers = workers or int(os.environ.get("AWSIM_WORKERS", os.cpu_count() or 4))
    workers = max(1, min(workers, len(indices))) if indices else 1
    shards = [indices[w::workers] for w in range(workers)]
    results = {}
    deaths = []
    procs = {}   # rfd -> state

    def spawn(shard):
        if not shard:
            return
        r, w = os.pipe()
        sys.stdout.flush()
        sys.stderr.flush()
        pid = os.fork()
        if pid == 0:
            os.close(r)
            for fd in list(procs):
                try:
                    os.close(fd)
                except OSError:
                    pass
            try:
                _worker_main(w, machine, libpath, shard, verif_seed, prop, opts)
            finally:
                os._exit(4)
        os.close(w)
        procs[r] = {"pid": pid, "buf": b"", "shard": shard, "cur": None, "pos": 0, "last": time.time()}

    for sh in shards:
        spawn(sh)

    hard_timeout = opts.get("run_timeout", 20.0) * 3 + 30
    while procs:
        rl, _, _ = select.select(list(procs), [], [], 5.0)
        now = time.time()
        if not rl:
            for fd, st in list(procs.items()):
                if now - st["last"] > hard_timeout:
                    try:
                        os.kill(st["pid"], signal.SIGKILL)
                    except OSError:
                        pass
            continue
        for fd in rl:
            st = procs[fd]
            try:
                data = os.read(fd, 1 << 16)
            except OSError:
                data = b""
            if data:
                st["last"] = now
                st["buf"] += data
                while b"\n" in st["buf"]:
                    line, st["buf"] = st["buf"].split(b"\n", 1)
                    if not line:
                        continue
                    msg = json.loads(line)
                    if msg["t"] == "start":
                        st["cur"] = msg["i"]
                    elif msg["t"] == "end":
                        st["cur"] = None
                        st["pos"] = st["shard"].index(msg["i"]) + 1
                        results[msg["i"]] = msg
                        if on_result is not None:
                            on_result(msg)
                    elif msg["t"] == "fatal":
                        raise RuntimeError(msg["err"])
                continue
            # EOF: the worker ended
            os.close(fd)
            del procs[fd]
            _, status = os.waitpid(st["pid"], 0)
            if st["cur"] is not None:
                if os.WIFSIGNALED(status):
                    sig = os.WTERMSIG(status)
                    how = "timeout" if sig in (signal.SIGALRM, signal.SIGKILL) else "signal:%d" % sig
                else:
                    how = "exit:%d" % os.WEXITSTATUS(status)
                deaths.append(WorkerDeath(st["cur"], how))
                pos = st["shard"].index(st["cur"]) + 1
                if len(deaths) >= opts.get("abort_after_deaths", 96):
                    # the verdict is settled many times over: do not spend minutes on more crashes and hangs
                    for st2 in procs.values():
                        try:
                            os.kill(st2["pid"], signal.SIGKILL)
                        except OSError:
                            pass
                    for fd2, st2 in list(procs.items()):
                        os.close(fd2)
                        os.waitpid(st2["pid"], 0)
                    procs.clear()
                    opts["_aborted_after_deaths"] = len(deaths)
                    break
                spawn(st["shard"][pos:])
            elif os.WIFEXITED(status) and os.WEXITSTATUS(status) not in (0,):
                raise RuntimeError("worker exited with status %d outside a run" % os.WEXITSTATUS(status))
    return results, deaths


def run_single_in_child(machine, libpath, fn_name, payload, opts, timeout=120.0, env_asan=False):
    """Execute one case (or one index) in a fresh forked child; returns result dict or WorkerDeath."""
    r, w = os.pipe()
    sys.stdout.flush()
    sys.stderr.flush()
    pid = os.fork()
    if pid == 0:
        os.close(r)
        try:
            from .node import Node
            devnull = os.open(os.devnull, os.O_WRONLY)
            os.dup2(devnull, 1)
            signal.signal(signal.SIGALRM, signal.SIG_DFL)
            signal.setitimer(signal.ITIMER_REAL, timeout)
            node = Node(libpath)
            if fn_name == "case":
                res = execute_case(machine, node, payload["case"], opts,
                                   perturb=payload.get("perturb", 0xA5) if isinstance(payload, dict) else 0xA5)
            else:
                res = run_one(machine, node, payload["verif_seed"], payload["prop"], payload["index"], opts)
            os.write(w, json.dumps(res, default=_json_default).encode())
        except Exception:
            os.write(w, json.dumps({"kind": "harness_error", "trace": traceback.format_exc()}).encode())
        finally:
            os._exit(0)
    os.close(w)
    chunks = []
    while True:
        b = os.read(r, 1 << 16)
        if not b:
            break
        chunks.append(b)
    os.close(r)
    _, status = os.waitpid(pid, 0)
    if os.WIFSIGNALED(status):
        sig = os.WTERMSIG(status)
        return WorkerDeath(-1, "timeout" if sig == signal.SIGALRM else "signal:%d" % sig)
    if os.WEXITSTATUS(status) != 0:
        return WorkerDeath(-1, "exit:%d" % os.WEXITSTATUS(status))
    data = b"".join(chunks)
    if not data:
        return WorkerDeath(-1, "exit:0-without-result")
    return json.loads(data)
