"""Sensitivity self-test (DESIGN.md 4.5, Appendix G): the check must notice small, compiling source changes that break
its property.

Two sources of changes:
  * CATALOGUE below: one-line text replacements written while building the checks;
  * /verif/seeded/<id>/patch.diff: changes produced by independent sub-agents that were given only the property text
    (meta.json names the property).

Each change is applied to a *scratch copy* of the parts of the source tree that the node is built from, in a private
temporary directory outside /repo and /verif, built through the same object cache, explored with the quick budget of
the property's check (plain node + sanitizer slice, self-tests off), and removed again - copy and outputs - at once.
A change counts as caught when the check exits 1 with a VIOLATION line.  Nothing here ever touches /repo.

    python -m simfw.mutants C19 [--only ID] [--seed N]          # or: ./check C19 --mutants
"""
from __future__ import annotations

import json
import os
import shutil
import subprocess
import sys
import tempfile
import time

from . import core

VERIF = core.VERIF
SEEDED = os.path.join(VERIF, "seeded")
COPY = ["src/cpu-kernels", "src/libawkward", "include", "dev", "kernel-specification.yml", "VERSION_INFO"]

K = "src/cpu-kernels/"
L = "src/libawkward/"

# id, file, old (must occur exactly once), new, what it breaks
CATALOGUE = {
    "C19": [
        ("div-no-floor", L + "forth/ForthMachine.cpp",
         "pair[0] = tmp * pair[1] == pair[0] ? tmp : tmp - ((pair[0] < 0) ^ (pair[1] < 0));",
         "pair[0] = tmp;",
         "'/' truncates toward zero instead of flooring (documented semantics, negative operands only)"),
        ("read-off-by-one", L + "forth/ForthInputBuffer.cpp",
         "if (num_bytes < 0  ||  next > length_) {\n      err = util::ForthError::read_beyond;",
         "if (num_bytes < 0  ||  next >= length_) {\n      err = util::ForthError::read_beyond;",
         "reading exactly up to the end of the input reports read_beyond"),
        ("resize-loses-last-item", L + "forth/ForthOutputBuffer.cpp",
         "std::memcpy(new_buffer.get(), ptr_.get(), sizeof(OUT) * (size_t)reserved_);",
         "std::memcpy(new_buffer.get(), ptr_.get(), sizeof(OUT) * (size_t)(length_ > 0 ? length_ - 1 : 0));",
         "an output buffer that grows forgets the last item written before the growth (depends on initial size / resize factor)"),
        ("decompile-wrong-word", L + "forth/ForthMachine.cpp",
         "        case CODE_ADD1: {\n          return \"1+\";",
         "        case CODE_ADD1: {\n          return \"1-\";",
         "decompiled() prints another word, so the decompiled program behaves differently"),
        ("mod-sign", L + "forth/ForthMachine.cpp",
         "if (rem != 0  &&  ((rem < 0) != (pair[1] < 0))) {\n                rem += pair[1];\n              }\n              pair[0] = rem;",
         "pair[0] = rem;",
         "'mod' returns the C++ remainder (sign of the dividend) instead of the Forth modulo"),
    ],
    "C14": [
        ("clear-reuses-buffer", L + "builder/GrowableBuffer.cpp",
         "    length_ = 0;\n    reserved_ = options_.initial();\n    ptr_ = kernel::malloc<T>(kernel::lib::cpu, options_.initial()*(int64_t)sizeof(T));",
         "    length_ = 0;",
         "clear() keeps writing into the buffer that earlier snapshots still share"),
        ("grow-copies-one-less", L + "builder/GrowableBuffer.cpp",
         "memcpy(ptr.get(), ptr_.get(), (size_t)length_ * sizeof(T));",
         "memcpy(ptr.get(), ptr_.get(), (size_t)(length_ > 0 ? length_ - 1 : 0) * sizeof(T));",
         "growing a buffer loses the last appended item (only at the growth boundary, depends on initial/resize)"),
        ("int-to-float-drops-last", L + "builder/Float64Builder.cpp",
         "for (int64_t i = 0;  i < old.length();  i++) {\n      newraw[i] = (double)oldraw[i];",
         "for (int64_t i = 0;  i + 1 < old.length();  i++) {\n      newraw[i] = (double)oldraw[i];",
         "promoting integers to floats leaves the last integer unconverted"),
        ("record-no-backfill", L + "builder/RecordBuilder.cpp",
         "        if (contents_[i].get()->length() == length_) {\n          maybeupdate((int64_t)i, contents_[i].get()->null());\n        }\n        if (contents_[i].get()->length() != length_ + 1) {",
         "        if (contents_[i].get()->length() > length_ + 1) {",
         "a record that does not set every field no longer gets None for the missing ones: fields of different lengths"),
        ("lb-record-last-field-misrouted", L + "layoutbuilder/RecordArrayBuilder.cpp",
         "    int64_t out = field_index_;\n    field_index_ = (field_index_ < contents_size_ - 1) ? field_index_ + 1 : 0;\n    return out;",
         "    return (field_index_ < contents_size_ - 1) ? field_index_++ : (field_index_ = 0);",
         "LayoutBuilder: the values of a record's last field are routed to field 0 (only strings notice)"),
        ("lb-regular-word-takes-one-item", L + "layoutbuilder/RegularArrayBuilder.cpp",
         "    for (int64_t i = 1;  i < form_.get()->size();  i++) {",
         "    for (int64_t i = 2;  i < form_.get()->size();  i++) {",
         "LayoutBuilder: a regular item of size n takes n - 1 content items"),
        ("endlist-wrong-offset", L + "builder/ListBuilder.cpp",
         "      offsets_.append(content_.get()->length());\n      begun_ = false;\n    }\n    else {\n      maybeupdate(content_.get()->endlist());",
         "      offsets_.append(content_.get()->length());\n    }\n    else {\n      maybeupdate(content_.get()->endlist());",
         "end_list does not close the list: the next value goes into the old list / ill-nesting is not reported"),
    ],
    "C15": [
        ("single-object-unwrap", L + "io/json.cpp",
         "    if (number == 1) {\n      return obj.get()->getitem_at_nowrap(0);",
         "    if (number <= 1) {\n      return obj.get()->getitem_at_nowrap(0);",
         "an empty stream is unwrapped like a single document"),
        ("truncation-accepted", L + "io/json.cpp",
         "      if (handler.moved()) {\n        if (!fully_parsed) {\n          if (stream.Peek() == 0) {",
         "      if (handler.moved()) {\n        if (!fully_parsed  &&  stream.Peek() != 0) {\n          if (stream.Peek() == 0) {",
         "input that ends in the middle of a document returns the partial array instead of an error"),
        ("nan-prefix-match", L + "io/json.cpp",
         "if (nan_string_ != nullptr  &&  strcmp(str, nan_string_) == 0) {",
         "if (nan_string_ != nullptr  &&  strncmp(str, nan_string_, length) == 0) {",
         "a string that is a prefix of the nan_string is converted to NaN"),
        ("uint-sign", L + "io/json.cpp",
         "    bool Uint(unsigned int x) {\n      moved_ = true;\n      builder_.integer((int64_t)x);",
         "    bool Uint(unsigned int x) {\n      moved_ = true;\n      builder_.integer((int64_t)(int)x);",
         "integers between 2**31 and 2**32 come out negative"),
    ],
    "C12": [
        ("compact-offsets-overrun", K + "awkward_ListArray_compact_offsets.cpp",
         "  tooffsets[0] = 0;\n  for (int64_t i = 0;  i < length;  i++) {\n    C start = fromstarts[i];",
         "  tooffsets[0] = 0;\n  for (int64_t i = 0;  i <= length;  i++) {\n    C start = fromstarts[i];",
         "reads one start/stop beyond the index and writes one offset beyond the output"),
        ("carrylength-short", K + "awkward_ListArray_getitem_next_range_carrylength.cpp",
         "      for (int64_t j = regular_start;  j > regular_stop;  j += step) {\n        *carrylength = *carrylength + 1;",
         "      for (int64_t j = regular_start - 1;  j > regular_stop;  j += step) {\n        *carrylength = *carrylength + 1;",
         "the carry of a range slice with a negative step is allocated one item too short per list"),
        ("regular-at-unchecked", K + "awkward_RegularArray_getitem_next_at.cpp",
         "  if (!(0 <= regular_at  &&  regular_at < size)) {",
         "  if (!(0 <= regular_at  &&  regular_at <= size)) {",
         "a[:, size] on a regular array is accepted and reads the first item of the next row / beyond the end"),
        ("malloc-returns-null-on-failure", K + "allocators.cpp",
         "    uint8_t* out = new uint8_t[bytelength];\n",
         "    uint8_t* out;\n    try { out = new uint8_t[bytelength]; } catch (...) { out = nullptr; }\n",
         "awkward_malloc reports an allocation failure malloc-style (null) and nobody checks: needs the allocation-failure fault"),
        ("numpy-carry-short-alloc", L + "array/NumpyArray.cpp",
         "kernel::malloc<void>(ptr_lib_, carry.length()*((int64_t)strides_[0])));",
         "kernel::malloc<void>(ptr_lib_, (carry.length() - 1)*((int64_t)strides_[0])));",
         "the gathered buffer is one item too small"),
    ],
    "C18": [
        ("unchecked-generation", L + "array/VirtualArray.cpp",
         "        out = generator_.get()->generate_and_check();\n",
         "        out = generator_.get()->generate();\n",
         "a generated array of the wrong length or form is accepted and cached"),
        ("short-by-one-accepted", L + "virtual/ArrayGenerator.cpp",
         "if (length_ >= 0  &&  length_ > out.get()->length()) {",
         "if (length_ >= 0  &&  length_ > out.get()->length() + 1) {",
         "a generated array one item shorter than declared passes the check"),
        ("prefix-slice-is-whole", L + "array/VirtualArray.cpp",
         "    if (generator_.get()->length() >= 0  &&\n        start == 0  &&\n        stop == generator_.get()->length()) {\n      return shallow_copy();",
         "    if (generator_.get()->length() >= 0  &&\n        start == 0) {\n      return shallow_copy();",
         "a[0:k] of an unmaterialised virtual array returns the whole array"),
        ("partition-boundary", L + "partition/IrregularlyPartitionedArray.cpp",
         "      if (at < stops_[(size_t)i]) {\n        partitionid = i;",
         "      if (at <= stops_[(size_t)i]) {\n        partitionid = i;",
         "the first item of every partition but the first is looked up in the previous partition"),
    ],
}


def scratch_copy(repo):
    base = os.environ.get("AWSIM_SCRATCH", tempfile.gettempdir())
    d = tempfile.mkdtemp(prefix="awsim-mut-", dir=base)
    for rel in COPY:
        src = os.path.join(repo, rel)
        dst = os.path.join(d, rel)
        if os.path.isdir(src):
            shutil.copytree(src, dst)
        elif os.path.exists(src):
            os.makedirs(os.path.dirname(dst), exist_ok=True)
            shutil.copy2(src, dst)
    return d


def apply_replacement(root, rel, old, new):
    p = os.path.join(root, rel)
    with open(p) as f:
        s = f.read()
    if s.count(old) != 1:
        return False
    with open(p, "w") as f:
        f.write(s.replace(old, new))
    return True


def apply_patch(root, patch):
    p = subprocess.run(["git", "apply", "--whitespace=nowarn", os.path.abspath(patch)], cwd=root, stdout=subprocess.PIPE,
                       stderr=subprocess.STDOUT)
    return p.returncode == 0, p.stdout.decode(errors="replace")


def seeded_for(prop):
    out = []
    if not os.path.isdir(SEEDED):
        return out
    for name in sorted(os.listdir(SEEDED)):
        d = os.path.join(SEEDED, name)
        meta = os.path.join(d, "meta.json")
        patch = os.path.join(d, "patch.diff")
        if not (os.path.exists(meta) and os.path.exists(patch)):
            continue
        with open(meta) as f:
            m = json.load(f)
        if prop in m.get("checked_by", [m.get("property")]):
            out.append((name, patch, m))
    return out


def run_check_on(prop, scratch, seed, runs=None, timeout=1500):
    """the property's quick check on the scratch tree; evidence and replays go to a throw-away directory"""
    out = tempfile.mkdtemp(prefix="awsim-mutout-", dir=os.path.dirname(scratch))
    env = dict(os.environ)
    env["AWSIM_OUT_DIR"] = out
    cmd = [sys.executable, "-m", "simfw.cli", prop, "--tier", "quick", "--repo", scratch, "--seed", str(seed), "--no-selftest", "--no-shrink"]
    if runs:
        cmd += ["--runs", str(runs)]
    t0 = time.time()
    try:
        p = subprocess.run(cmd, cwd=VERIF, env=env, stdout=subprocess.PIPE, stderr=subprocess.STDOUT, timeout=timeout)
        rc, text = p.returncode, p.stdout.decode(errors="replace")
    except subprocess.TimeoutExpired as e:
        rc, text = 124, (e.stdout or b"").decode(errors="replace")
    lines = [ln for ln in text.splitlines() if ln.startswith("VIOLATION") or ln.startswith("  ") and "/" in ln[:60]]
    shutil.rmtree(out, ignore_errors=True)
    return rc, lines[:6], round(time.time() - t0, 1), text


def run_one(prop, repo, seed, kind, ident, applier, note):
    scratch = scratch_copy(repo)
    try:
        ok = applier(scratch)
        if ok is not True and not (isinstance(ok, tuple) and ok[0]):
            return {"id": ident, "source": kind, "status": "stale", "note": note,
                    "detail": "the change no longer applies to the tree" + ("" if ok is False else ": " + ok[1][:300])}
        rc, lines, wall, text = run_check_on(prop, scratch, seed)
        status = {1: "caught", 0: "survived"}.get(rc, "error")
        r = {"id": ident, "source": kind, "status": status, "exit": rc, "wall_s": wall, "note": note, "first_reports": lines}
        if status == "error":
            r["detail"] = text[-1500:]
        return r
    finally:
        shutil.rmtree(scratch, ignore_errors=True)


def run_catalogue(prop, repo="/repo", seed=1, only=None, log=None):
    results = []
    for ident, rel, old, new, note in CATALOGUE.get(prop, []):
        if only and ident not in only:
            continue
        r = run_one(prop, repo, seed, "catalogue", ident, lambda root: apply_replacement(root, rel, old, new), note)
        results.append(r)
        if log:
            log("[%s] mutant %-28s %s (%ss)" % (prop, ident, r["status"], r.get("wall_s", "-")))
    for name, patch, meta in seeded_for(prop):
        if only and name not in only:
            continue
        r = run_one(prop, repo, seed, "seeded", name, lambda root: apply_patch(root, patch), meta.get("title", ""))
        if r["status"] == "survived" and meta.get("not_caught_reason"):
            # judged not to be a violation of the property as stated (reason in meta.json and DESIGN.md 14.5)
            r["status"] = "outside_property"
            r["detail"] = meta["not_caught_reason"]
        results.append(r)
        if log:
            log("[%s] seeded %-28s %s (%ss)" % (prop, name, r["status"], r.get("wall_s", "-")))
    applied = [r for r in results if r["status"] in ("caught", "survived")]
    return {"run": len(applied), "caught": len([r for r in applied if r["status"] == "caught"]),
            "survived": [r["id"] for r in applied if r["status"] == "survived"],
            "stale": [r["id"] for r in results if r["status"] == "stale"],
            "outside_property": [r["id"] for r in results if r["status"] == "outside_property"],
            "errors": [r["id"] for r in results if r["status"] == "error"],
            "details": results}


def main(argv=None):
    import argparse
    ap = argparse.ArgumentParser()
    ap.add_argument("property")
    ap.add_argument("--repo", default="/repo")
    ap.add_argument("--seed", type=int, default=1)
    ap.add_argument("--only", action="append")
    ap.add_argument("--merge", action="store_true", help="with --only: add the entries to seeded/RESULTS-<P>.json")
    a = ap.parse_args(argv)
    res = run_catalogue(a.property, a.repo, a.seed, a.only, log=lambda s: print(s, flush=True))
    each = [{k: r.get(k) for k in ("id", "source", "status", "wall_s", "note", "first_reports")} for r in res["details"]]
    path = os.path.join(SEEDED, "RESULTS-%s.json" % a.property)
    if not a.only:
        # the last full run per property is kept next to the seeded changes (which check caught what, first reports)
        os.makedirs(SEEDED, exist_ok=True)
        with open(path, "w") as f:
            json.dump({"property": a.property, "seed": a.seed,
                       "summary": {k: v for k, v in res.items() if k != "details"}, "each": each}, f, indent=1)
    elif a.merge and os.path.exists(path):
        # changes imported after the last full run: their entries are added to (or replace those in) its record
        with open(path) as f:
            doc = json.load(f)
        new_ids = {e["id"] for e in each}
        doc["each"] = [e for e in doc["each"] if e["id"] not in new_ids] + [dict(e, run_separately=True) for e in each]
        ran = [e for e in doc["each"] if e["status"] in ("caught", "survived")]
        doc["summary"] = {"run": len(ran), "caught": sum(e["status"] == "caught" for e in ran),
                          "survived": [e["id"] for e in ran if e["status"] == "survived"],
                          "stale": [e["id"] for e in doc["each"] if e["status"] == "stale"],
                          "outside_property": [e["id"] for e in doc["each"] if e["status"] == "outside_property"],
                          "errors": [e["id"] for e in doc["each"] if e["status"] not in
                                     ("caught", "survived", "stale", "outside_property")]}
        with open(path, "w") as f:
            json.dump(doc, f, indent=1)
    print(json.dumps({k: v for k, v in res.items() if k != "details"}, indent=1))
    for r in res["details"]:
        if r["status"] != "caught":
            print(json.dumps(r, indent=1)[:2500])
    return 0 if not res["survived"] and not res["errors"] else 3


if __name__ == "__main__":
    sys.exit(main())
