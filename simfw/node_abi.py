"""Declarations of the harness entry points added after the forth wrapper (kept apart so node.py stays small)."""
from ctypes import POINTER, c_char_p, c_double, c_int, c_long, c_void_p


def declare(node, sig):
    # builder
    sig("aws_b_new", c_long, c_long, c_double)
    sig("aws_b_cmd", c_int, c_long, c_int, c_int, c_long, c_double, c_double, c_char_p, c_long, c_long)
    sig("aws_b_snapshot", c_long, c_long)
    sig("aws_b_length", c_int, c_long, c_int, POINTER(c_long))
    sig("aws_b_text", c_long, c_long, c_int, c_char_p, c_long)
    # generic content observation
    sig("aws_dump", c_long, c_long, c_char_p, c_long)
    sig("aws_text", c_long, c_long, c_int, c_char_p, c_long)
    sig("aws_length", c_long, c_long)


class Mixin:
    def b_new(self, initial, resize):
        h = self.lib.aws_b_new(initial, resize)
        if h == 0:
            self.raise_last()
        return h

    def b_cmd(self, h, cmd, via=0, i=0, d=0.0, d2=0.0, s=b"", arr=0):
        if not self.lib.aws_b_cmd(h, cmd, via, i, d, d2, s, len(s), arr):
            self.raise_last()

    def b_snapshot(self, h):
        r = self.lib.aws_b_snapshot(h)
        if r == 0:
            self.raise_last()
        return r

    def b_length(self, h, via=0):
        out = c_long(0)
        if not self.lib.aws_b_length(h, via, out):
            self.raise_last()
        return out.value

    def dump(self, h) -> bytes:
        return self.text_call(self.lib.aws_dump, h)

    def text(self, h, what) -> bytes:
        return self.text_call(self.lib.aws_text, h, what)

    def length(self, h):
        r = self.lib.aws_length(h)
        if r < 0:
            self.raise_last()
        return r
