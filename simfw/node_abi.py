"""Declarations of the harness entry points added after the forth wrapper (kept apart so node.py stays small)."""
from ctypes import POINTER, c_char_p, c_double, c_int, c_long, c_void_p


def declare(node, sig):
    # builder
    sig("aws_b_new", c_long, c_long, c_double)
    sig("aws_b_cmd", c_int, c_long, c_int, c_int, c_long, c_double, c_double, c_char_p, c_long, c_long)
    sig("aws_b_snapshot", c_long, c_long)
    sig("aws_b_length", c_int, c_long, c_int, POINTER(c_long))
    sig("aws_b_text", c_long, c_long, c_int, c_char_p, c_long)
    # generic content observation
    sig("aws_dump", c_long, c_long, c_char_p, c_long)
    sig("aws_text", c_long, c_long, c_int, c_char_p, c_long)
    sig("aws_length", c_long, c_long)
    # json
    sig("aws_fromjson", c_long, c_int, c_char_p, c_long, c_long, c_long, c_double, c_char_p, c_char_p, c_char_p,
        POINTER(c_long), c_int)
    sig("aws_tojson", c_long, c_long, c_int, c_long, c_long, c_char_p, c_char_p, c_char_p, c_char_p, c_char_p,
        c_char_p, c_long)


class Mixin:
    def b_new(self, initial, resize):
        h = self.lib.aws_b_new(initial, resize)
        if h == 0:
            self.raise_last()
        return h

    def b_cmd(self, h, cmd, via=0, i=0, d=0.0, d2=0.0, s=b"", arr=0):
        if not self.lib.aws_b_cmd(h, cmd, via, i, d, d2, s, len(s), arr):
            self.raise_last()

    def b_snapshot(self, h):
        r = self.lib.aws_b_snapshot(h)
        if r == 0:
            self.raise_last()
        return r

    def b_length(self, h, via=0):
        out = c_long(0)
        if not self.lib.aws_b_length(h, via, out):
            self.raise_last()
        return out.value

    def dump(self, h) -> bytes:
        return self.text_call(self.lib.aws_dump, h)

    def text(self, h, what) -> bytes:
        return self.text_call(self.lib.aws_text, h, what)

    def length(self, h):
        r = self.lib.aws_length(h)
        if r < 0:
            self.raise_last()
        return r

    @staticmethod
    def _opt(s):
        return b"\x01" if s is None else (s.encode("utf-8") if isinstance(s, str) else s)

    def fromjson(self, via, text: bytes, buffersize=65536, initial=1024, resize=1.5, nan=None, inf=None, minf=None,
                 chunks=()):
        arr = (c_long * max(1, len(chunks)))(*chunks) if chunks else None
        h = self.lib.aws_fromjson(via, text, len(text), buffersize, initial, resize, self._opt(nan), self._opt(inf),
                                  self._opt(minf), arr, len(chunks))
        if h == 0:
            self.raise_last()
        return h

    def tojson(self, h, via=0, buffersize=65536, maxdecimals=-1, nan=None, inf=None, minf=None, cre=None, cim=None):
        return self.text_call(self.lib.aws_tojson, h, via, buffersize, maxdecimals, self._opt(nan), self._opt(inf),
                              self._opt(minf), self._opt(cre), self._opt(cim))
