"""Declarations of the harness entry points added after the forth wrapper (kept apart so node.py stays small)."""


def declare(node, sig):
    pass
