"""Declarations of the harness entry points added after the forth wrapper (kept apart so node.py stays small)."""
from ctypes import POINTER, byref, c_char_p, c_double, c_int, c_long, c_ulong, c_void_p


def declare(node, sig):
    # builder
    sig("aws_b_new", c_long, c_long, c_double)
    sig("aws_b_cmd", c_int, c_long, c_int, c_int, c_long, c_double, c_double, c_char_p, c_long, c_long)
    sig("aws_b_snapshot", c_long, c_long)
    sig("aws_b_length", c_int, c_long, c_int, POINTER(c_long))
    sig("aws_b_text", c_long, c_long, c_int, c_char_p, c_long)
    # generic content observation
    sig("aws_dump", c_long, c_long, c_char_p, c_long)
    sig("aws_text", c_long, c_long, c_int, c_char_p, c_long)
    sig("aws_length", c_long, c_long)
    sig("aws_isscalar", c_int, c_long)
    # arrays
    sig("aws_buf", c_long, c_char_p, c_long)
    sig("aws_buf_poke", c_int, c_long, c_long, c_int, c_long)
    sig("aws_digest_bufs", c_ulong, POINTER(c_long))
    sig("aws_index", c_long, c_long, c_int, c_long, c_long)
    sig("aws_numpy", c_long, c_long, c_int, c_int, POINTER(c_long), POINTER(c_long), c_long, c_char_p)
    sig("aws_empty", c_long)
    sig("aws_regular", c_long, c_long, c_long, c_long)
    sig("aws_listoffset", c_long, c_long, c_long)
    sig("aws_list", c_long, c_long, c_long, c_long)
    sig("aws_indexed", c_long, c_long, c_long, c_int)
    sig("aws_unmasked", c_long, c_long)
    sig("aws_bytemasked", c_long, c_long, c_long, c_int)
    sig("aws_bitmasked", c_long, c_long, c_long, c_int, c_long, c_int)
    sig("aws_union", c_long, c_long, c_long, POINTER(c_long), c_int)
    sig("aws_record", c_long, POINTER(c_long), c_int, c_char_p, c_long)
    sig("aws_setparam", c_int, c_long, c_char_p, c_char_p)
    sig("aws_slice_new", c_long)
    sig("aws_slice_add", c_int, c_long, c_int, POINTER(c_long), c_int, c_char_p, c_long)
    sig("aws_getitem", c_long, c_long, c_long)
    sig("aws_op", c_long, c_int, c_long, c_long, POINTER(c_long), c_int, c_char_p)
    sig("aws_meta", c_long, c_long, c_int, c_char_p, c_char_p, c_long)
    # lazy
    sig("aws_cache_new", c_long)
    sig("aws_cache_script", c_int, c_long, c_int, POINTER(c_int), c_int)
    sig("aws_cache_broken", c_int, c_long, c_int)
    sig("aws_cache_evict", c_long, c_long, c_char_p)
    sig("aws_seam_log", c_long, c_char_p, c_long)
    sig("aws_cache_keys", c_long, c_long, c_char_p, c_long)
    sig("aws_gen_new", c_long, c_long, c_int, c_int, c_long, c_long, c_char_p)
    sig("aws_gen_script", c_int, c_long, POINTER(c_int), c_int)
    sig("aws_gen_declare_form_of", c_int, c_long, c_long)
    sig("aws_gen_declare_length", c_int, c_long, c_long)
    sig("aws_gen_script_at", c_int, c_long, POINTER(c_int), c_int)
    sig("aws_gen_calls", c_long, c_long)
    sig("aws_virtual", c_long, c_long, c_long, c_char_p)
    sig("aws_materialise", c_long, c_long)
    sig("aws_alloc_supported", c_int)
    sig("aws_alloc_arm", None, c_long)
    sig("aws_alloc_disarm", c_int, POINTER(c_long))
    sig("aws_lb_new", c_long, c_char_p, c_long, c_double)
    sig("aws_lb_cmd", c_int, c_long, c_int, c_long, c_double, c_double, c_char_p, c_long)
    sig("aws_lb_snapshot", c_long, c_long)
    sig("aws_lb_text", c_long, c_long, c_int, c_char_p, c_long)
    sig("aws_part", c_long, POINTER(c_long), POINTER(c_long), c_int)
    sig("aws_part_op", c_long, c_long, c_int, POINTER(c_long), c_int)
    sig("aws_part_text", c_long, c_long, c_int, c_char_p, c_long)
    # json
    sig("aws_fromjson", c_long, c_int, c_char_p, c_long, c_long, c_long, c_double, c_char_p, c_char_p, c_char_p,
        POINTER(c_long), c_int)
    sig("aws_tojson", c_long, c_long, c_int, c_long, c_long, c_char_p, c_char_p, c_char_p, c_char_p, c_char_p,
        c_char_p, c_long)


class Mixin:
    def b_new(self, initial, resize):
        h = self.lib.aws_b_new(initial, resize)
        if h == 0:
            self.raise_last()
        return h

    def b_cmd(self, h, cmd, via=0, i=0, d=0.0, d2=0.0, s=b"", arr=0):
        if not self.lib.aws_b_cmd(h, cmd, via, i, d, d2, s, len(s), arr):
            self.raise_last()

    def b_snapshot(self, h):
        r = self.lib.aws_b_snapshot(h)
        if r == 0:
            self.raise_last()
        return r

    def b_length(self, h, via=0):
        out = c_long(0)
        if not self.lib.aws_b_length(h, via, out):
            self.raise_last()
        return out.value

    def dump(self, h) -> bytes:
        return self.text_call(self.lib.aws_dump, h)

    def text(self, h, what) -> bytes:
        return self.text_call(self.lib.aws_text, h, what)

    def isscalar(self, h):
        r = self.lib.aws_isscalar(h)
        if r < 0:
            self.raise_last()
        return r == 1

    def length(self, h):
        r = self.lib.aws_length(h)
        if r < 0:
            self.raise_last()
        return r

    @staticmethod
    def _opt(s):
        return b"\x01" if s is None else (s.encode("utf-8") if isinstance(s, str) else s)

    def fromjson(self, via, text: bytes, buffersize=65536, initial=1024, resize=1.5, nan=None, inf=None, minf=None,
                 chunks=()):
        arr = (c_long * max(1, len(chunks)))(*chunks) if chunks else None
        h = self.lib.aws_fromjson(via, text, len(text), buffersize, initial, resize, self._opt(nan), self._opt(inf),
                                  self._opt(minf), arr, len(chunks))
        if h == 0:
            self.raise_last()
        return h

    def tojson(self, h, via=0, buffersize=65536, maxdecimals=-1, nan=None, inf=None, minf=None, cre=None, cim=None):
        return self.text_call(self.lib.aws_tojson, h, via, buffersize, maxdecimals, self._opt(nan), self._opt(inf),
                              self._opt(minf), self._opt(cre), self._opt(cim))

    # ---------------------------------------------------------------- arrays
    def _h(self, h):
        if h == 0:
            self.raise_last()
        return h

    @staticmethod
    def _longs(vals):
        return (c_long * max(1, len(vals)))(*vals)

    def buf(self, data: bytes):
        return self._h(self.lib.aws_buf(data, len(data)))

    def buf_poke(self, h, byteoff, width, value):
        if not self.lib.aws_buf_poke(h, byteoff, width, value):
            self.raise_last()

    def digest_bufs(self):
        alive = c_long(0)
        d = self.lib.aws_digest_bufs(alive)
        return d, alive.value

    def index(self, buf, form, offset, length):
        return self._h(self.lib.aws_index(buf, form, offset, length))

    def numpy(self, buf, dtype, shape, strides, byteoffset, unit=""):
        return self._h(self.lib.aws_numpy(buf, dtype, len(shape), self._longs(shape), self._longs(strides), byteoffset,
                                          unit.encode()))

    def empty(self):
        return self._h(self.lib.aws_empty())

    def regular(self, c, size, zeros_length):
        return self._h(self.lib.aws_regular(c, size, zeros_length))

    def listoffset(self, offsets, c):
        return self._h(self.lib.aws_listoffset(offsets, c))

    def list(self, starts, stops, c):
        return self._h(self.lib.aws_list(starts, stops, c))

    def indexed(self, index, c, option):
        return self._h(self.lib.aws_indexed(index, c, 1 if option else 0))

    def unmasked(self, c):
        return self._h(self.lib.aws_unmasked(c))

    def bytemasked(self, mask, c, valid_when):
        return self._h(self.lib.aws_bytemasked(mask, c, 1 if valid_when else 0))

    def bitmasked(self, mask, c, valid_when, length, lsb):
        return self._h(self.lib.aws_bitmasked(mask, c, 1 if valid_when else 0, length, 1 if lsb else 0))

    def union(self, tags, index, contents):
        return self._h(self.lib.aws_union(tags, index, self._longs(contents), len(contents)))

    def record(self, contents, keys, length):
        names = None if keys is None else ",".join(keys).encode("utf-8")
        return self._h(self.lib.aws_record(self._longs(contents), len(contents), names, length))

    def setparam(self, h, key, json):
        if not self.lib.aws_setparam(h, key.encode(), json.encode()):
            self.raise_last()

    def slice_new(self):
        return self._h(self.lib.aws_slice_new())

    def slice_add(self, s, kind, iargs=(), sarg="", arr=0):
        if not self.lib.aws_slice_add(s, kind, self._longs(iargs), len(iargs), sarg.encode("utf-8"), arr):
            self.raise_last()

    def getitem(self, a, s):
        return self._h(self.lib.aws_getitem(a, s))

    def op(self, opcode, a, b=0, iargs=(), sarg=""):
        return self._h(self.lib.aws_op(opcode, a, b, self._longs(iargs), len(iargs), sarg.encode("utf-8")))

    def meta(self, a, what, sarg=""):
        return self.text_call(self.lib.aws_meta, a, what, sarg.encode("utf-8"))

    # ---------------------------------------------------------------- lazy
    @staticmethod
    def _ints(vals):
        return (c_int * max(1, len(vals)))(*vals)

    def cache_new(self):
        return self._h(self.lib.aws_cache_new())

    def cache_script(self, h, which, script):
        if not self.lib.aws_cache_script(h, which, self._ints(script), len(script)):
            self.raise_last()

    def cache_broken(self, h, broken):
        if not self.lib.aws_cache_broken(h, 1 if broken else 0):
            self.raise_last()

    def cache_evict(self, h, key=""):
        n = self.lib.aws_cache_evict(h, key.encode())
        if n < 0:
            self.raise_last()
        return n

    def seam_log(self):
        """ordered list of seam calls since the last read: ["cache get k0 hit", "gen k0 ok", ...]"""
        return [ln for ln in self.text_call(self.lib.aws_seam_log).decode().split("\n") if ln]

    def cache_keys(self, h):
        return [k for k in self.text_call(self.lib.aws_cache_keys, h).decode().split(",") if k]

    def gen_new(self, truth, declare_form, declare_length, wrong=0, longer=0, key="g"):
        return self._h(self.lib.aws_gen_new(truth, 1 if declare_form else 0, 1 if declare_length else 0, wrong, longer,
                                            key.encode()))

    def gen_declare_length(self, g, length):
        if not self.lib.aws_gen_declare_length(g, length):
            self.raise_last()

    def gen_declare_form_of(self, g, content):
        if not self.lib.aws_gen_declare_form_of(g, content):
            self.raise_last()

    def gen_script_at(self, h, script):
        if not self.lib.aws_gen_script_at(h, self._ints(script), len(script)):
            self.raise_last()

    def gen_calls(self, h):
        n = self.lib.aws_gen_calls(h)
        if n < 0:
            self.raise_last()
        return n

    def virtual(self, gen, cache, key):
        return self._h(self.lib.aws_virtual(gen, cache, key.encode()))

    # ---------------------------------------------------------------- allocation seam
    def alloc_supported(self):
        return bool(self.lib.aws_alloc_supported())

    def alloc_arm(self, countdown):
        self.lib.aws_alloc_arm(countdown)

    def alloc_disarm(self):
        """-> (fired, allocations seen while armed)"""
        seen = c_long(0)
        fired = self.lib.aws_alloc_disarm(byref(seen))
        return bool(fired), seen.value

    # ---------------------------------------------------------------- LayoutBuilder
    LB = {"null": 0, "boolean": 1, "int64": 2, "float64": 3, "complex": 4, "string": 5, "bytestring": 6, "begin_list": 7,
          "end_list": 8, "index": 9, "tag": 10}

    def lb_new(self, form_json, initial, resize):
        return self._h(self.lib.aws_lb_new(form_json.encode("utf-8"), initial, resize))

    def lb_cmd(self, h, name, i=0, d=0.0, d2=0.0, s=b""):
        if not self.lib.aws_lb_cmd(h, self.LB[name], i, d, d2, s, len(s)):
            self.raise_last()

    def lb_snapshot(self, h):
        return self._h(self.lib.aws_lb_snapshot(h))

    def lb_text(self, h, what):
        return self.text_call(self.lib.aws_lb_text, h, what)

    def materialise(self, h):
        """the same tree with every VirtualArray replaced by what it stands for; no cache or generator is touched"""
        return self._h(self.lib.aws_materialise(h))

    def part(self, parts, stops):
        return self._h(self.lib.aws_part(self._longs(parts), self._longs(stops), len(parts)))

    def part_op(self, h, what, iargs=()):
        return self._h(self.lib.aws_part_op(h, what, self._longs(iargs), len(iargs)))

    def part_text(self, h, what):
        return self.text_call(self.lib.aws_part_text, h, what)
