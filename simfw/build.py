"""Build the simulated node (libawsim-<flavour>.so) from a source tree of awkward-1.0.

Everything is compiled from the *current* content of the tree (default /repo) through a
content-addressed object cache, so an unchanged tree costs a couple of seconds and a one-file
change only recompiles that file.  Nothing is ever written into the source tree.

    python -m simfw.build [--repo DIR] [--flavour plain|asan] [-v]
"""
from __future__ import annotations

import concurrent.futures
import fcntl
import hashlib
import importlib.util
import os
import shutil
import subprocess
import sys
import time

VERIF = os.path.dirname(os.path.dirname(os.path.abspath(__file__)))
BUILD = os.environ.get("AWSIM_BUILD_DIR", os.path.join(VERIF, "build"))
OBJCACHE = os.path.join(BUILD, "objcache")
OUT = os.path.join(BUILD, "out")
NATIVE = os.path.join(VERIF, "native")
SHIM = os.path.join(NATIVE, "shim")
CXX = os.environ.get("CXX", "g++")

FLAVOURS = {
    "plain": ["-O1"],
    # the UB checks that indicate a memory or crash hazard; signed overflow and shifts are off on
    # purpose (C19 says arithmetic wraps at the machine width)
    "asan": ["-O1", "-g1", "-fno-omit-frame-pointer", "-fsanitize=address",
             "-fsanitize=integer-divide-by-zero,bounds,null,return,unreachable,vla-bound",
             "-fno-sanitize-recover=all"],
}
COMMON = ["-std=c++11", "-fPIC", "-fvisibility=default", "-w", "-DNDEBUG"]


class BuildError(Exception):
    pass


def _sha(*parts: bytes) -> str:
    h = hashlib.sha256()
    for p in parts:
        h.update(hashlib.sha256(p).digest())
    return h.hexdigest()


def _read(p: str) -> bytes:
    with open(p, "rb") as f:
        return f.read()


def _walk(root: str, exts) -> list[str]:
    out = []
    for d, dirs, files in os.walk(root):
        dirs.sort()
        for f in sorted(files):
            if f.endswith(exts):
                out.append(os.path.join(d, f))
    return out


def repo_sources(repo: str) -> list[str]:
    return _walk(os.path.join(repo, "src", "cpu-kernels"), (".cpp",)) + \
        _walk(os.path.join(repo, "src", "libawkward"), (".cpp",))


def code_fingerprint(repo: str) -> str:
    """sha256 over everything of the tree that is compiled into the node."""
    h = hashlib.sha256()
    files = repo_sources(repo) + [p for p in _walk(os.path.join(repo, "include"), (".h",))
                                  if not p.endswith(os.path.join("awkward", "kernels.h"))]
    files.append(os.path.join(repo, "kernel-specification.yml"))
    for p in files:
        h.update(os.path.relpath(p, repo).encode())
        h.update(hashlib.sha256(_read(p)).digest())
    return h.hexdigest()


def _gen_kernels_h(repo: str, stage: str) -> bytes:
    """kernels.h is generated (git-ignored) — produce it with the repo's own generator into a
    staging directory; the timestamp line is dropped so the header text is a function of the spec."""
    import yaml  # PyYAML is in /venv
    spec_path = os.path.join(repo, "kernel-specification.yml")
    gen_path = os.path.join(repo, "dev", "generate-kernel-signatures.py")
    spec = importlib.util.spec_from_file_location("awsim_gen_kernel_signatures", gen_path)
    mod = importlib.util.module_from_spec(spec)
    spec.loader.exec_module(mod)
    os.makedirs(os.path.join(stage, "dev"), exist_ok=True)
    os.makedirs(os.path.join(stage, "include", "awkward"), exist_ok=True)
    mod.CURRENT_DIR = os.path.join(stage, "dev")
    with open(spec_path) as f:
        try:
            specification = yaml.load(f, Loader=yaml.CSafeLoader)
        except AttributeError:
            specification = yaml.safe_load(f)
    so = sys.stdout
    try:
        sys.stdout = open(os.devnull, "w")
        mod.include_kernels_h(specification)
    finally:
        sys.stdout.close()
        sys.stdout = so
    path = os.path.join(stage, "include", "awkward", "kernels.h")
    text = _read(path).split(b"\n")
    text = [ln for ln in text if not ln.startswith(b"// AUTO GENERATED ON")]
    data = b"\n".join(text)
    with open(path, "wb") as f:
        f.write(data)
    return data


def _compile(job):
    src, obj, cmd = job
    if os.path.exists(obj):
        try:
            os.utime(obj, None)
        except OSError:
            pass
        return (src, True, "")
    tmp = obj + ".tmp%d" % os.getpid()
    p = subprocess.run(cmd + ["-c", src, "-o", tmp], stdout=subprocess.PIPE, stderr=subprocess.STDOUT)
    if p.returncode != 0:
        try:
            os.unlink(tmp)
        except OSError:
            pass
        return (src, False, p.stdout.decode(errors="replace")[-4000:])
    os.replace(tmp, obj)
    return (src, False, "")


def _prune_cache(limit_bytes=6 << 30):
    try:
        ents = [(os.stat(os.path.join(OBJCACHE, f)), f) for f in os.listdir(OBJCACHE)]
    except OSError:
        return
    total = sum(s.st_size for s, _ in ents)
    if total <= limit_bytes:
        return
    ents.sort(key=lambda e: e[0].st_mtime)
    for s, f in ents:
        if total <= limit_bytes * 0.7:
            break
        try:
            os.unlink(os.path.join(OBJCACHE, f))
            total -= s.st_size
        except OSError:
            pass


def build(repo: str = "/repo", flavour: str = "plain", verbose: bool = False, jobs: int | None = None) -> dict:
    """Returns {"lib": path, "fingerprint": sha, "seconds": s, "compiled": n, "cached": n}."""
    t0 = time.time()
    repo = os.path.abspath(repo)
    version = _read(os.path.join(repo, "VERSION_INFO")).decode().strip()
    flags = COMMON + FLAVOURS[flavour] + ['-DVERSION_INFO="%s"' % version]
    os.makedirs(OBJCACHE, exist_ok=True)
    os.makedirs(OUT, exist_ok=True)
    jobs = jobs or int(os.environ.get("AWSIM_JOBS", os.cpu_count() or 4))

    fp = code_fingerprint(repo)
    stage = os.path.join(BUILD, "stage", fp[:24])
    lock = open(os.path.join(BUILD, ".lock"), "w")
    fcntl.flock(lock, fcntl.LOCK_EX)
    try:
        kernels_h = _gen_kernels_h(repo, stage)
        inc_repo = os.path.join(repo, "include")
        headers = [p for p in _walk(inc_repo, (".h",)) if not p.endswith(os.path.join("awkward", "kernels.h"))]
        headers += _walk(SHIM, (".h",))
        hh = hashlib.sha256()
        for p in headers:
            base = inc_repo if p.startswith(inc_repo) else SHIM
            hh.update(os.path.relpath(p, base).encode())
            hh.update(hashlib.sha256(_read(p)).digest())
        hh.update(hashlib.sha256(kernels_h).digest())
        inc_hash = hh.digest()
        ver = subprocess.run([CXX, "--version"], stdout=subprocess.PIPE).stdout
        flag_hash = " ".join(flags).encode() + ver

        incs = ["-I" + os.path.join(stage, "include"), "-I" + inc_repo, "-I" + SHIM, "-I" + NATIVE]
        cmd = [CXX] + flags + incs
        srcs = repo_sources(repo) + _walk(NATIVE, (".cpp",))
        srcs = [s for s in srcs if os.sep + "shim" + os.sep not in s]
        native_h = b"".join(_read(p) for p in _walk(NATIVE, (".h",)) if os.sep + "shim" + os.sep not in p)
        work = []
        objs = []
        for s in srcs:
            rel = os.path.relpath(s, repo if s.startswith(repo + os.sep) else VERIF)
            key = _sha(flag_hash, inc_hash, rel.encode(), _read(s), native_h if s.startswith(NATIVE) else b"")
            obj = os.path.join(OBJCACHE, key + ".o")
            objs.append(obj)
            work.append((s, obj, cmd))
        linkkey = _sha(flag_hash, *[o.encode() for o in objs])[:32]
        libdir = os.path.join(OUT, linkkey)
        lib = os.path.join(libdir, "libawsim-%s.so" % flavour)
        compiled = cached = 0
        if not os.path.exists(lib):
            errors = []
            with concurrent.futures.ThreadPoolExecutor(max_workers=jobs) as ex:
                for src, was_cached, err in ex.map(_compile, work):
                    if err:
                        errors.append((src, err))
                    elif was_cached:
                        cached += 1
                    else:
                        compiled += 1
                        if verbose:
                            print("compiled", src, file=sys.stderr)
            if errors:
                raise BuildError("compilation failed:\n" + "\n".join("%s:\n%s" % e for e in errors[:3]))
            os.makedirs(libdir, exist_ok=True)
            tmp = lib + ".tmp%d" % os.getpid()
            rsp = tmp + ".rsp"
            with open(rsp, "w") as f:
                f.write("\n".join(objs))
            p = subprocess.run([CXX, "-shared"] + FLAVOURS[flavour] + ["-o", tmp, "@" + rsp, "-ldl"],
                               stdout=subprocess.PIPE, stderr=subprocess.STDOUT)
            os.unlink(rsp)
            if p.returncode != 0:
                raise BuildError("link failed:\n" + p.stdout.decode(errors="replace")[-4000:])
            os.replace(tmp, lib)
            _prune_cache()
            _prune_out(keep=libdir)
        else:
            cached = len(objs)
            os.utime(libdir, None)
    finally:
        shutil.rmtree(stage, ignore_errors=True)
        fcntl.flock(lock, fcntl.LOCK_UN)
        lock.close()
    return {"lib": lib, "fingerprint": fp, "seconds": round(time.time() - t0, 2),
            "compiled": compiled, "cached": cached, "flavour": flavour}


def _prune_out(keep: str, maxdirs: int = 12):
    try:
        ds = [os.path.join(OUT, d) for d in os.listdir(OUT)]
    except OSError:
        return
    ds = [d for d in ds if d != keep]
    ds.sort(key=lambda d: os.stat(d).st_mtime)
    for d in ds[:-maxdirs] if len(ds) > maxdirs else []:
        shutil.rmtree(d, ignore_errors=True)


def asan_runtime() -> str:
    return subprocess.run([CXX, "-print-file-name=libasan.so"], stdout=subprocess.PIPE).stdout.decode().strip()


if __name__ == "__main__":
    import argparse
    ap = argparse.ArgumentParser()
    ap.add_argument("--repo", default="/repo")
    ap.add_argument("--flavour", default="plain", choices=sorted(FLAVOURS))
    ap.add_argument("-v", action="store_true")
    a = ap.parse_args()
    try:
        r = build(a.repo, a.flavour, a.v)
    except BuildError as e:
        print(str(e), file=sys.stderr)
        sys.exit(2)
    print(r)
