"""ctypes binding to libawsim (the simulated node: real libawkward + framework harness)."""
from __future__ import annotations

import ctypes
import json

from . import node_abi
from ctypes import (CFUNCTYPE, POINTER, c_char_p, c_double, c_int, c_long, c_void_p, create_string_buffer, string_at)


class NodeError(Exception):
    """A C++ exception surfaced by the node: .cls in {invalid_argument, runtime_error, out_of_range, std, nonstd,
    bad_alloc}; cls == 'harness' means a bug in the framework, never in awkward."""

    def __init__(self, cls, msg):
        Exception.__init__(self, "%s: %s" % (cls, msg))
        self.cls = cls
        self.msg = msg


class HarnessBug(Exception):
    pass


SEAM_CB = CFUNCTYPE(c_long, c_int, c_long, c_long, c_long)


class Node(node_abi.Mixin):
    def __init__(self, path: str):
        self.path = path
        self.lib = L = ctypes.CDLL(path, mode=ctypes.RTLD_GLOBAL)
        self._buf = create_string_buffer(1 << 16)
        self._cls = create_string_buffer(64)
        self._msg = create_string_buffer(4096)
        self._done = c_long(0)

        def sig(name, restype, *argtypes):
            f = getattr(L, name, None)
            if f is None:
                return None
            f.restype = restype
            f.argtypes = list(argtypes)
            return f

        sig("aws_abi", c_int)
        sig("aws_reset", None)
        sig("aws_live", c_long)
        sig("aws_drop", c_int, c_long)
        sig("aws_last_error", c_int, c_char_p, c_int, c_char_p, c_int)
        sig("aws_perturb", c_int, c_int)
        # forth
        sig("aws_fm_new", c_long, c_int, c_char_p, c_long, c_long, c_long, c_long, c_double)
        sig("aws_fm_input", c_int, c_long, c_char_p, c_char_p, c_long)
        sig("aws_fm_do", c_int, c_long, c_int, c_long, POINTER(c_long))
        sig("aws_fm_call", c_int, c_long, c_char_p)
        sig("aws_fm_flags", c_int, c_long)
        sig("aws_fm_depth", c_long, c_long)
        sig("aws_fm_state", c_long, c_long, c_char_p, c_long)
        sig("aws_fm_decompiled", c_long, c_long, c_char_p, c_long)
        sig("aws_fm_text", c_long, c_long, c_int, c_char_p, c_long)
        self._declare_more(sig)

    def _declare_more(self, sig):
        node_abi.declare(self, sig)

    # ------------------------------------------------------------------ errors
    def last_error(self):
        if self.lib.aws_last_error(self._cls, 64, self._msg, 4096):
            return (self._cls.value.decode("latin-1"), self._msg.value.decode("latin-1"))
        return None

    def raise_last(self):
        e = self.last_error()
        if e is None:
            raise HarnessBug("node reported failure without an error record")
        if e[0] == "harness":
            raise HarnessBug(e[1])
        raise NodeError(e[0], e[1])

    # ------------------------------------------------------------------ text helper
    def text_call(self, fn, *args):
        """fn(*args, buf, cap) -> needed length or -1."""
        n = fn(*args, self._buf, len(self._buf))
        if n < 0:
            self.raise_last()
        if n >= len(self._buf):
            self._buf = create_string_buffer(int(n) * 2 + 16)
            n2 = fn(*args, self._buf, len(self._buf))
            if n2 < 0:
                self.raise_last()
            # a side-effect free query is assumed; the value may legitimately differ in length only if not
            n = n2
        return string_at(self._buf, int(n))     # copies n bytes only (.raw would copy the whole buffer every time)

    def reset(self):
        self.lib.aws_reset()
        if len(self._buf) > (1 << 20):     # one huge dump must not tax every later call
            self._buf = create_string_buffer(1 << 16)

    def drop(self, h):
        if not self.lib.aws_drop(h):
            self.raise_last()

    def perturb(self, b):
        self.lib.aws_perturb(b)

    # ------------------------------------------------------------------ forth
    def fm_new(self, width, src: bytes, stackmax, recmax, outinit, outresize):
        h = self.lib.aws_fm_new(width, src, len(src), stackmax, recmax, outinit, outresize)
        if h == 0:
            self.raise_last()
        return h

    def fm_input(self, h, name: str, data: bytes):
        r = self.lib.aws_fm_input(h, name.encode(), data, len(data))
        if not r:
            self.raise_last()
        return r == 2       # the machine does not declare this input "must be writable": it lies in read-only pages

    FM_BEGIN, FM_RUN, FM_STEP, FM_RESUME, FM_RESET, FM_BEGIN0, FM_RUN0 = range(7)

    def fm_do(self, h, what, count=1):
        err = self.lib.aws_fm_do(h, what, count, ctypes.byref(self._done))
        if err < 0:
            self.raise_last()
        return err, self._done.value

    def fm_call(self, h, word: str):
        err = self.lib.aws_fm_call(h, word.encode("latin-1"))
        if err < 0:
            self.raise_last()
        return err

    def fm_depth(self, h):
        d = self.lib.aws_fm_depth(h)
        if d < 0:
            self.raise_last()
        return d

    def fm_flags(self, h):
        f = self.lib.aws_fm_flags(h)
        if f < 0:
            self.raise_last()
        return f

    def fm_state(self, h):
        return json.loads(self.text_call(self.lib.aws_fm_state, h))

    def fm_decompiled(self, h) -> bytes:
        return self.text_call(self.lib.aws_fm_decompiled, h)

    def fm_text(self, h, what) -> bytes:
        return self.text_call(self.lib.aws_fm_text, h, what)
