"""C14, second front end: the Form-driven LayoutBuilder (DESIGN.md section 6, 'LayoutBuilder').

The builder compiles a Form into an AwkwardForth program and feeds it one command at a time; the growth settings of the
Forth output buffers are the schedule-like knob, snapshots share those buffers.  One run = a type from the supported
grammar -> its Form (JSON) -> seeded values of that type -> their command sequence, with snapshots in between, a twin
builder under other growth settings, and optionally one ill-typed or ill-nested command.

Supported grammar (what this version's LayoutBuilder implements; everything else is out of scope, see ASSUMPTIONS of
builder.py): bool/int64/float64/complex128 leaves, strings, ListOffsetArray64, RegularArray (size >= 1), RecordArray
(fields in Form order), IndexedOptionArray64 (null), UnmaskedArray, UnionArray8_64 over distinct leaf types (tag).
"""
from __future__ import annotations

import copy
import json
import math

from ..core import Violation, stable_hash
from ..models import value_model as vm
from ..node import NodeError

LEAVES = ["bool", "int64", "float64"]      # complex128: the Forth machine has no complex output dtype (Form refused)
KEYS = ["x", "y", "z", "w", "a b"]
STRS = ["", "a", "abc", "hello", "x y", "é", "0", "zz" * 9]
INITIAL = [0, 1, 2, 3, 8, 16, 1024]
RESIZE = [1.01, 1.5, 2.0, 3.7]


# ================================================================================================ types, forms, values
def gen_type(r, depth, maxd, in_record=False, field=False):
    kinds = ["num", "num", "str"]
    if depth < maxd and field:
        # a field takes exactly one command sequence that the record can follow: a leaf, a string or a list. A record or
        # regular array as a direct field takes several values, and the record node above advances per value
        kinds += ["list", "list"]
    elif depth < maxd:
        kinds += ["list", "list", "reg", "rec", "rec", "unmasked"]
        if not in_record:
            kinds += ["idx"]
            # below a RecordArray the builder loses its place on 'null' and 'tag' (they are not routed through the
            # record node): option and union fields are outside what this version implements
            kinds += ["opt", "union"]
    k = r.choice(kinds)
    if k == "num":
        return ["num", r.choice(LEAVES)]
    if k == "str":
        return ["str"]
    if k == "list":
        inner = gen_type(r, depth + 1, maxd, in_record)
        # "la": the Form asks for a ListArray64 (starts/stops) instead of a ListOffsetArray64 - another builder class
        # a third element names the builder class, a fourth the index width the Form asks for
        kind = "la" if r.random() < 0.25 else "lo"
        w = r.choice(["i64", "i64", "i64", "i32", "u32"])
        return ["list", inner] + ([kind, w] if (kind, w) != ("lo", "i64") else [])
    if k == "reg":
        return ["reg", gen_type(r, depth + 1, maxd, in_record), r.choice([1, 2, 3])]
    if k == "opt":
        # 'null' must mean this node: the content may not itself start with an optional value
        t = gen_type(r, depth + 1, maxd, in_record)
        while t[0] in ("opt", "union", "unmasked", "idx") or "null" in first_cmds(t):
            t = gen_type(r, depth + 1, maxd, in_record)
        return ["opt", t] + (["i32"] if r.random() < 0.3 else [])
    if k == "unmasked":
        t = gen_type(r, depth + 1, maxd, in_record)
        while t[0] in ("opt", "union", "unmasked", "idx"):
            t = gen_type(r, depth + 1, maxd, in_record)
        return ["unmasked", t]
    if k == "idx":
        # IndexedArray over a numeric leaf; "categorical": equal values share one content item
        return ["idx", ["num", r.choice(["bool", "int64", "float64"])], r.random() < 0.6, r.choice(["i32", "i64", "u32"])]
    if k == "rec":
        n = r.choice([1, 2, 2, 3])
        return ["rec", [[key, gen_type(r, depth + 1, maxd, True, True)] for key in r.sample(KEYS, n)]]
    leaves = r.sample(LEAVES, r.choice([2, 2, 3]))
    return ["union", [["num", dt] for dt in leaves]] + ([r.choice(["i32", "u32"])] if r.random() < 0.3 else [])


def first_cmds(t):
    """the commands a value of type t can start with"""
    k = t[0]
    if k == "num":
        return {{"bool": "boolean", "int64": "int64", "float64": "float64", "complex128": "complex"}[t[1]]}
    if k == "str":
        return {"string"}
    if k == "list":
        return {"begin_list"}
    if k in ("reg", "unmasked", "idx"):
        return first_cmds(t[1])
    if k == "opt":
        return {"null"} | first_cmds(t[1])
    if k == "rec":
        return first_cmds(t[1][0][1])
    return {"tag"}


def form_of(t):
    k = t[0]
    if k == "num":
        return t[1]
    if k == "str":
        return {"class": "ListOffsetArray64", "offsets": "i64",
                "content": {"class": "NumpyArray", "primitive": "uint8", "parameters": {"__array__": "char"}},
                "parameters": {"__array__": "string"}}
    if k == "list":
        w = t[3] if len(t) > 3 else "i64"
        suffix = {"i64": "64", "i32": "32", "u32": "U32"}[w]
        if len(t) > 2 and t[2] == "la":
            return {"class": "ListArray" + suffix, "starts": w, "stops": w, "content": form_of(t[1])}
        return {"class": "ListOffsetArray" + suffix, "offsets": w, "content": form_of(t[1])}
    if k == "reg":
        return {"class": "RegularArray", "size": t[2], "content": form_of(t[1])}
    if k == "opt":
        if len(t) > 2 and t[2] == "i32":
            return {"class": "IndexedOptionArray32", "index": "i32", "content": form_of(t[1])}
        return {"class": "IndexedOptionArray64", "index": "i64", "content": form_of(t[1])}
    if k == "unmasked":
        return {"class": "UnmaskedArray", "content": form_of(t[1])}
    if k == "idx":
        f = {"class": {"i64": "IndexedArray64", "i32": "IndexedArray32", "u32": "IndexedArrayU32"}[t[3]], "index": t[3],
             "content": form_of(t[1])}
        if t[2]:
            f["parameters"] = {"__array__": "categorical"}
        return f
    if k == "rec":
        return {"class": "RecordArray", "contents": {key: form_of(sub) for key, sub in t[1]}}
    if k == "union":
        w = t[2] if len(t) > 2 else "i64"
        return {"class": {"i64": "UnionArray8_64", "i32": "UnionArray8_32", "u32": "UnionArray8_U32"}[w], "tags": "i8", "index": w,
                "contents": [form_of(sub) for sub in t[1]]}
    raise AssertionError(t)


def gen_value(r, t):
    k = t[0]
    if k == "num":
        dt = t[1]
        if dt == "bool":
            return r.random() < 0.5
        if dt == "int64":
            return r.choice([0, 1, -1, 7, 2**31, -2**63, 2**63 - 1]) if r.random() < 0.3 else r.randint(-20, 20)
        if dt == "float64":
            return r.choice([0.0, -0.0, 1.5, -2.25, 1e100, float("inf"), float("-inf"), 3.14]) if r.random() < 0.4 \
                else r.randint(-40, 40) / 4.0
        return complex(r.randint(-4, 4) / 2.0, r.randint(-4, 4) / 2.0)
    if k == "str":
        return r.choice(STRS)
    if k == "list":
        return [gen_value(r, t[1]) for _ in range(r.choice([0, 0, 1, 2, 3, 5]))]
    if k == "reg":
        return [gen_value(r, t[1]) for _ in range(t[2])]
    if k == "opt":
        return None if r.random() < 0.3 else gen_value(r, t[1])
    if k == "idx":
        v = gen_value(r, t[1])
        if t[2] and isinstance(v, float) and v == 0.0:
            v = 0.0      # a categorical array keeps one item per class of *equal* values: -0.0 and 0.0 are one category
        return v
    if k == "unmasked":
        return gen_value(r, t[1])
    if k == "rec":
        return ("rec", None, [(key, gen_value(r, sub)) for key, sub in t[1]])
    if k == "union":
        i = r.randrange(len(t[1]))
        return ("u", i, gen_value(r, t[1][i]))
    raise AssertionError(t)


def plain(v):
    """the value as the walker shows it (union members lose their tag)"""
    if isinstance(v, tuple) and v[0] == "u":
        return plain(v[2])
    if isinstance(v, tuple) and v[0] == "rec":
        return ("rec", None, [(k, plain(x)) for k, x in v[2]])
    if isinstance(v, list):
        return [plain(x) for x in v]
    return v


def commands(v, t, out):
    k = t[0]
    if k == "num":
        dt = t[1]
        if dt == "bool":
            out.append(["boolean", 1 if v else 0])
        elif dt == "int64":
            out.append(["int64", v])
        elif dt == "float64":
            out.append(["float64", repr(v)])
        else:
            out.append(["complex", repr(v.real), repr(v.imag)])
    elif k == "str":
        out.append(["string", v])
    elif k == "list":
        out.append(["begin_list"])
        for x in v:
            commands(x, t[1], out)
        out.append(["end_list"])
    elif k == "reg":
        for x in v:
            commands(x, t[1], out)
    elif k == "opt":
        if v is None:
            out.append(["null"])
        else:
            commands(v, t[1], out)
    elif k in ("unmasked", "idx"):
        commands(v, t[1], out)
    elif k == "rec":
        for (key, x), (_, sub) in zip(v[2], t[1]):
            commands(x, sub, out)
    elif k == "union":
        out.append(["tag", v[1]])
        commands(v[2], t[1][v[1]], out)
    return out


ILL = [["end_list"], ["begin_list"], ["null"], ["boolean", 1], ["int64", 3], ["float64", "2.5"], ["string", "q"], ["tag", 9],
       ["tag", -1], ["complex", "1.0", "1.0"]]


def generate(r, opts):
    maxd = r.choice([0, 1, 2, 2, 3])
    t = gen_type(r, 0, maxd)
    nvalues = r.randint(1, opts.get("builder_max_values", 8))
    events = []
    p_snap = r.choice([0.05, 0.2, 0.4])
    for i in range(nvalues):
        v = gen_value(r, t)
        cmds = commands(v, t, [])
        events.append(["value", vm.to_jsonable(plain(v)), cmds])
        if r.random() < p_snap:
            events.append(["snapshot"])
    events.append(["snapshot"])
    ill = None
    if r.random() < 0.3:
        # one command that the Form does not allow at that point; position = (value index, command index)
        vi = r.randrange(nvalues)
        ncmd = len([e for e in events if e[0] == "value"][vi][2])
        ill = {"value": vi, "at": r.randrange(ncmd + 1), "cmd": copy.deepcopy(r.choice(ILL)),
               "mid_snapshot": r.random() < 0.5}
    return {"mode": "layoutbuilder", "type": t, "form": json.dumps(form_of(t)), "events": events, "ill": ill,
            "initial": r.choice(INITIAL), "resize": r.choice(RESIZE), "twin": [r.choice(INITIAL), r.choice(RESIZE)]}


# ================================================================================================ execution
def allowed_next(t, cmds_so_far):
    """the set of command names a well-typed continuation may start with, given the commands already issued for the
    current top-level value (None when the value is complete). A small recursive-descent recogniser of the grammar."""
    pos = [0]
    need = []       # first-sets collected at the point where the input ran out

    def first(t):
        k = t[0]
        if k == "num":
            return {{"bool": "boolean", "int64": "int64", "float64": "float64", "complex128": "complex"}[t[1]]}
        if k == "str":
            return {"string"}
        if k == "list":
            return {"begin_list"}
        if k == "reg":
            return first(t[1])
        if k == "opt":
            return {"null"} | first(t[1])
        if k in ("unmasked", "idx"):
            return first(t[1])
        if k == "rec":
            return first(t[1][0][1])
        return {"tag"}

    class Out(Exception):
        pass

    def eat(t):
        k = t[0]
        if pos[0] >= len(cmds_so_far):
            need.append(first(t))
            raise Out()
        c = cmds_so_far[pos[0]]
        if k in ("num", "str"):
            pos[0] += 1
        elif k == "list":
            pos[0] += 1
            while True:
                if pos[0] >= len(cmds_so_far):
                    need.append({"end_list"} | first(t[1]))
                    raise Out()
                if cmds_so_far[pos[0]][0] == "end_list":
                    pos[0] += 1
                    return
                eat(t[1])
        elif k == "reg":
            for _ in range(t[2]):
                eat(t[1])
        elif k == "opt":
            if c[0] == "null":
                pos[0] += 1
            else:
                eat(t[1])
        elif k in ("unmasked", "idx"):
            eat(t[1])
        elif k == "rec":
            for _, sub in t[1]:
                eat(sub)
        elif k == "union":
            pos[0] += 1
            eat(t[1][c[1]])
    try:
        eat(t)
    except Out:
        return need[0]
    return None


def send(node, b, c):
    name = c[0]
    if name in ("boolean", "int64", "tag", "index"):
        node.lb_cmd(b, name, i=c[1])
    elif name == "float64":
        node.lb_cmd(b, name, d=float(c[1]))
    elif name == "complex":
        node.lb_cmd(b, name, d=float(c[1]), d2=float(c[2]))
    elif name in ("string", "bytestring"):
        node.lb_cmd(b, name, s=c[1].encode("utf-8"))
    else:
        node.lb_cmd(b, name)


ORDINARY = ("invalid_argument", "out_of_range", "runtime_error")


def execute(node, case, rec, opts):
    t = case["type"]
    try:
        b = node.lb_new(case["form"], case["initial"], case["resize"])
        twin = node.lb_new(case["form"], case["twin"][0], case["twin"][1])
    except NodeError as e:
        raise Violation("value", "form_refused", {"form": case["form"], "error": [e.cls, e.msg[:300]]})
    rec.state(("lb_type", stable_hash(sorted(set(_kinds(t))))))
    done = []           # model: the complete values so far
    snaps = []          # (handle, value)
    ill = case.get("ill")
    vi = -1

    def read(h):
        return vm.loads(node.dump(h))

    def check_old(tick, why):
        for si, (h, val) in enumerate(snaps):
            try:
                now = read(h)
            except (NodeError, ValueError, UnicodeError, KeyError, IndexError) as x:
                raise Violation("immutability", "snapshot_changed", {"snapshot": si, "why": why, "was": vm.to_jsonable(val),
                                                                     "now": "unreadable: %s" % (str(x)[:200])}, at=tick)
            if not vm.same(now, val):
                raise Violation("immutability", "snapshot_changed", {"snapshot": si, "why": why, "was": vm.to_jsonable(val),
                                                                     "now": vm.to_jsonable(now)}, at=tick)
            rec.probe("lb_old_snapshot_reread")

    def snapshot(tick, complete):
        try:
            h = node.lb_snapshot(b)
            th = node.lb_snapshot(twin)
            val, tval = read(h), read(th)
        except NodeError as e:
            if e.cls not in ORDINARY and not (e.cls == "walk" and not complete):
                raise Violation("robustness", "non_ordinary_exception", {"error": [e.cls, e.msg[:200]]}, at=tick)
            if complete:
                raise Violation("value", "snapshot_refused", {"error": [e.cls, e.msg[:300]], "appended": vm.to_jsonable(done)}, at=tick)
            return
        rec.ev(tick, "snapshot", vm.to_jsonable(val))
        if complete:
            if not vm.same(val, done):
                raise Violation("value", "snapshot_differs_from_appended_values",
                                {"form": case["form"], "appended": vm.to_jsonable(done), "snapshot": vm.to_jsonable(val)}, at=tick)
            if node.text(h, 3) != b"":
                raise Violation("value", "snapshot_is_not_a_valid_layout", {"validityerror": node.text(h, 3).decode()[:300]}, at=tick)
            rec.probe("lb_snapshots_compared")
        if not vm.same(val, tval):
            raise Violation("determinism", "twin_builder_differs", {"growth": [case["initial"], case["resize"]], "twin": case["twin"],
                                                                    "a": vm.to_jsonable(val), "b": vm.to_jsonable(tval)}, at=tick)
        snaps.append((h, val))

    tick = 0
    for ev in case["events"]:
        tick += 1
        rec.ticks += 1
        if ev[0] == "snapshot":
            snapshot(tick, True)
            check_old(tick, "snapshot")
            continue
        vi += 1
        cmds = ev[2]
        for ci in range(len(cmds) + 1):
            if ill is not None and ill["value"] == vi and ill["at"] == ci:
                allowed = allowed_next(t, cmds[:ci])
                if allowed is None:
                    allowed = allowed_next(t, [])
                bad = ill["cmd"]
                is_ill = bad[0] not in allowed or (bad[0] == "tag" and not (0 <= bad[1] < _ntags(t, cmds[:ci])))
                if is_ill:
                    rec.fault("lb_ill_command:" + bad[0])
                    if ill.get("mid_snapshot"):
                        snapshot(tick, False)
                    try:
                        send(node, b, bad)
                        accepted = True
                    except NodeError as e:
                        accepted = False
                        if e.cls not in ORDINARY:
                            raise Violation("robustness", "non_ordinary_exception", {"command": bad, "error": [e.cls, e.msg[:200]]}, at=tick)
                    rec.ev(tick, "ill", bad, accepted)
                    if accepted and bad[0] in ("end_list", "begin_list", "tag"):
                        # structure commands out of place must be refused (value commands of the wrong type are refused
                        # by the Forth program; what they leave behind is unspecified)
                        pass
                    rec.probe("lb_ill_refused" if not accepted else "lb_ill_accepted")
                    # the builder's state is unspecified from here on; older snapshots must not care
                    check_old(tick, "ill command")
                    return
            if ci == len(cmds):
                break
            c = cmds[ci]
            for which in (b, twin):
                try:
                    send(node, which, c)
                except NodeError as e:
                    if e.cls not in ORDINARY:
                        raise Violation("robustness", "non_ordinary_exception", {"command": c, "error": [e.cls, e.msg[:200]]}, at=tick)
                    raise Violation("value", "well_typed_command_refused",
                                    {"form": case["form"], "command": c, "value": ev[1], "error": [e.cls, e.msg[:300]]}, at=tick)
            rec.ev(tick, c[0])
        done.append(vm.from_jsonable(ev[1]))
        rec.probe("lb_values_appended")
    check_old(tick, "end")


def _kinds(t, out=None):
    out = out if out is not None else []
    out.append("list:la" if t[0] == "list" and len(t) > 2 else t[0] if t[0] != "num" else "num:" + t[1])
    if t[0] in ("list", "reg", "opt", "unmasked", "idx"):
        _kinds(t[1], out)
    elif t[0] == "rec":
        for _, sub in t[1]:
            _kinds(sub, out)
    elif t[0] == "union":
        for sub in t[1]:
            _kinds(sub, out)
    return out


def _ntags(t, cmds):
    # number of union members at the point where a tag is expected (only unions have tags; 0 otherwise)
    def find(t):
        if t[0] == "union":
            return len(t[1])
        if t[0] in ("list", "reg", "opt", "unmasked", "idx"):
            return find(t[1])
        if t[0] == "rec":
            return max(find(sub) for _, sub in t[1])
        return 0
    return find(t)


def signature(case):
    kinds = sorted(set(_kinds(case["type"])))
    return [stable_hash(["lb", kinds, case["initial"] <= 3, case["twin"][0] <= 3, case["ill"] is not None]), True]


def describe(case):
    return {"mode": "layoutbuilder", "form": case["form"], "growth": [case["initial"], case["resize"]], "twin": case["twin"],
            "events": [[e[0]] if e[0] == "snapshot" else ["value", e[1]] for e in case["events"]], "ill": case["ill"]}


def simpler_types(t):
    """structurally smaller types: a child in place of the node, or one child made simpler"""
    k = t[0]
    if k == "idx":
        yield t[1]
        if t[2]:
            yield ["idx", t[1], False, t[3]]
    if k in ("list", "reg", "opt", "unmasked"):
        yield t[1]
        for sub in simpler_types(t[1]):
            if not (k in ("opt", "unmasked") and sub[0] in ("opt", "union", "unmasked")) and \
                    not (k == "opt" and "null" in first_cmds(sub)):
                yield [k, sub] + t[2:]
        if k == "reg" and t[2] > 1:
            yield ["reg", t[1], 1]
        if k == "list" and len(t) > 2:
            yield ["list", t[1]]
    elif k == "rec":
        for key, sub in t[1]:
            yield sub
        if len(t[1]) > 1:
            for i in range(len(t[1])):
                yield ["rec", t[1][:i] + t[1][i + 1:]]
        for i, (key, sub) in enumerate(t[1]):
            for s2 in simpler_types(sub):
                yield ["rec", t[1][:i] + [[key, s2]] + t[1][i + 1:]]
    elif k == "union":
        for sub in t[1]:
            yield sub
        if len(t[1]) > 2:
            for i in range(len(t[1])):
                yield ["union", t[1][:i] + t[1][i + 1:]]
    elif k == "str":
        yield ["num", "int64"]
    elif k == "num" and t[1] != "int64":
        yield ["num", "int64"]


def case_for_type(case, t, nvalues):
    import random
    r = random.Random(7)
    events = []
    for _ in range(nvalues):
        v = gen_value(r, t)
        events.append(["value", vm.to_jsonable(plain(v)), commands(v, t, [])])
    events.append(["snapshot"])
    d = copy.deepcopy(case)
    d.update({"type": t, "form": json.dumps(form_of(t)), "events": events, "ill": None})
    return d


def shrink_candidates(case):
    if case["ill"] is None:
        for t2 in simpler_types(case["type"]):
            for n in (1, 2, 4):
                yield case_for_type(case, t2, n)
    ev = case["events"]
    vals = [i for i, e in enumerate(ev) if e[0] == "value"]
    # drop values (the ill command moves with its value)
    for i in vals:
        d = copy.deepcopy(case)
        vi = vals.index(i)
        del d["events"][i]
        if d["ill"] is not None:
            if d["ill"]["value"] == vi:
                continue
            if d["ill"]["value"] > vi:
                d["ill"]["value"] -= 1
        if any(e[0] == "value" for e in d["events"]):
            yield d
    for i, e in enumerate(ev):
        if e[0] == "snapshot" and i != len(ev) - 1:
            d = copy.deepcopy(case); del d["events"][i]; yield d
    if case["ill"] is not None:
        d = copy.deepcopy(case); d["ill"] = None; yield d
    for key, val in (("initial", 1024), ("resize", 1.5)):
        if case[key] != val:
            d = copy.deepcopy(case); d[key] = val; yield d
    if case["twin"] != [1024, 1.5]:
        d = copy.deepcopy(case); d["twin"] = [1024, 1.5]; yield d
