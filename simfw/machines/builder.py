"""C14 — ArrayBuilder histories with snapshot readers, growth knobs, clear and ill-nesting faults (DESIGN.md 6)."""
from __future__ import annotations

import copy
import json
import math

from ..core import Discard, Violation, stable_hash
from ..models import value_model as vm
from ..node import NodeError
from . import layoutb

PROP = "C14"

INITIAL = [0, 1, 2, 3, 4, 7, 1024]
RESIZE = [1.01, 1.5, 2.0, 3.7]
INTS = [0, 1, -1, 2, 3, 5, 7, 10, 100, 255, 256, 65535, 2**31 - 1, -2**31, 2**31, 2**53, 2**53 + 1, -(2**53) - 1,
        2**63 - 1, -2**63]
FLOATS = [0.0, -0.0, 1.0, -1.5, 2.5, 3.14, 1e100, -1e-100, 5e-324, float("inf"), float("-inf"), float("nan"),
          1.7976931348623157e308, 0.1]
STRS = ["", "a", "abc", "hello world", "quo\"te", "back\\slash", "nul\x00mid", "éè", "中文",
        "\U0001f600", "tab\tnl\n", "x" * 40]
BYTES = [b"", b"a", b"\x00", b"\xff\xfe", b"abc\x00def", bytes(range(16))]
NAMES = [None, None, "A", "B"]
KEYS = ["x", "y", "z", "w"]
UNITS = ["s"]

CMD = {"null": 0, "bool": 1, "int": 2, "real": 3, "complex": 4, "dt": 5, "td": 6, "str": 7, "bytes": 8,
       "beginlist": 9, "endlist": 10, "begintuple": 11, "index": 12, "endtuple": 13,
       "beginrecord": 14, "beginrecord_fast": 15, "beginrecord_check": 16, "field_fast": 17, "field_check": 18,
       "endrecord": 19, "append": 20, "extend": 21, "clear": 22, "append_nowrap": 23}


# ================================================================================================ generator
class Gen:
    def __init__(self, rng, opts):
        self.r = rng
        self.opts = opts
        r = rng
        kinds = ["none", "bool", "int", "float", "complex", "dt", "str", "bytes", "list", "rec", "tup"]
        self.en = {k: r.random() < 0.6 for k in kinds}
        self.en["complex"] = r.random() < 0.2
        self.en["dt"] = r.random() < 0.2
        if not any(self.en[k] for k in ("bool", "int", "float", "str")):
            self.en["int"] = True
        self.max_depth = r.choice([1, 2, 2, 3, 3, 4])
        self.max_width = r.choice([2, 3, 4, 5])

    def scalar_kinds(self):
        return [k for k in ("none", "bool", "int", "float", "complex", "dt", "str", "bytes") if self.en[k]]

    def value(self, depth, palette=None):
        r = self.r
        kinds = palette or [k for k in self.en if self.en[k]]
        if depth >= self.max_depth:
            kinds = [k for k in kinds if k not in ("list", "rec", "tup")] or ["int"]
        k = r.choice(kinds)
        if k == "none":
            return None
        if k == "bool":
            return r.random() < 0.5
        if k == "int":
            return r.choice(INTS) if r.random() < 0.5 else r.randint(-20, 20)
        if k == "float":
            return r.choice(FLOATS) if r.random() < 0.6 else r.randint(-50, 50) / 4.0
        if k == "complex":
            return complex(r.choice([0.0, 1.0, -2.5, 3.25]), r.choice([0.0, 1.0, -1.0, 0.5]))
        if k == "dt":
            return ("dt", r.choice([0, 1, -1, 1600000000, 2**40]), r.choice(["M8[s]", "m8[s]"]))
        if k == "str":
            return r.choice(STRS)
        if k == "bytes":
            return r.choice(BYTES)
        if k == "list":
            sub = self.sub_palette()
            return [self.value(depth + 1, sub) for _ in range(r.randint(0, self.max_width))]
        if k == "rec":
            name = r.choice(NAMES)
            keys = [x for x in KEYS if r.random() < 0.5]
            r.shuffle(keys)
            sub = self.sub_palette()
            return ("rec", name, [(key, self.value(depth + 1, sub)) for key in keys])
        if k == "tup":
            n = r.choice([0, 1, 2, 2, 3])
            sub = self.sub_palette()
            return ("tup", [self.value(depth + 1, sub) for _ in range(n)])
        raise AssertionError(k)

    def sub_palette(self):
        r = self.r
        kinds = [k for k in self.en if self.en[k]]
        n = r.choice([1, 1, 2, 2, 3, len(kinds)])
        return r.sample(kinds, min(n, len(kinds)))


def linearise(v, field_mode, rng, skip_fields=True):
    """value -> builder commands exactly as builder_fromiter would issue them."""
    out = []
    if v is None:
        out.append(["null"])
    elif isinstance(v, bool):
        out.append(["bool", v])
    elif isinstance(v, int):
        out.append(["int", v])
    elif isinstance(v, float):
        out.append(["real", repr(v)])
    elif isinstance(v, complex):
        out.append(["complex", repr(v.real), repr(v.imag)])
    elif isinstance(v, str):
        out.append(["str", v.encode("utf-8").hex()])
    elif isinstance(v, bytes):
        out.append(["bytes", v.hex()])
    elif isinstance(v, list):
        out.append(["beginlist"])
        for x in v:
            out.extend(linearise(x, field_mode, rng))
        out.append(["endlist"])
    elif v[0] == "dt":
        out.append(["dt" if v[2].startswith("M") else "td", v[1], "datetime64[s]" if v[2].startswith("M") else "timedelta64[s]"])
    elif v[0] == "rec":
        out.append(["beginrecord", v[1]])
        for k, x in v[2]:
            out.append(["field", k])
            out.extend(linearise(x, field_mode, rng))
        out.append(["endrecord"])
    elif v[0] == "tup":
        out.append(["begintuple", len(v[1])])
        for i, x in enumerate(v[1]):
            out.append(["index", i])
            out.extend(linearise(x, field_mode, rng))
        out.append(["endtuple"])
    else:
        raise AssertionError(v)
    return out


ILL = [["endlist"], ["endtuple"], ["endrecord"], ["field", "x"], ["field", "q"], ["index", 0], ["index", 1], ["index", 5],
       ["index", -1], ["index", -2], ["int", 7], ["null"], ["beginlist"], ["begintuple", 2], ["begintuple", -1],
       ["begintuple", -7], ["beginrecord", None],
       ["beginrecord", "A"], ["real", "1.5"], ["str", "7a"]]


def generate(rng, opts):
    if rng.random() < opts.get("builder_layoutbuilder_share", 0.25):
        return layoutb.generate(rng, opts)      # the Form-driven front end
    if rng.random() < 0.004:
        # more distinct types at one position than a union has tags for (127): tuples of 1..n fields, or n differently
        # named records; nothing may crash, and whatever a snapshot returns must be a valid layout
        return {"mode": "many_types", "n": rng.choice([126, 127, 128, 129, 131, 140]), "kind": rng.choice(["tuples", "records"]),
                "initial": rng.choice(INITIAL), "resize": rng.choice(RESIZE), "snap_every": rng.choice([0, 50])}
    g = Gen(rng, opts)
    r = rng
    nvalues = r.randint(1, opts.get("builder_max_values", 8))
    palette = g.sub_palette() if r.random() < 0.7 else None
    cmds = []
    for _ in range(nvalues):
        cmds.extend(linearise(g.value(0, palette), None, r))
    events = []
    # arrays that did not come out of a builder as sources of append/extend: IndexedArray32/U32/64 and
    # IndexedOptionArray32/64 over numbers, strings or lists (each index class has its own builder class)
    sources = [gen_source(r) for _ in range(r.choice([1, 1, 2]))] if r.random() < 0.25 else []
    nsnap = len(sources)
    p_reader = r.choice([0.05, 0.15, 0.3])
    p_clear = r.choice([0.0, 0.0, 0.02, 0.08])
    p_append = r.choice([0.0, 0.0, 0.05, 0.15]) if not sources else r.choice([0.15, 0.3])
    p_ill = r.choice([0.0, 0.0, 0.0, 0.03])
    p_alloc = r.choice([0.0, 0.0, 0.0, 0.02, 0.08])
    for c in cmds:
        x = r.random()
        if x < p_reader:
            events.append(["snapshot"])
            nsnap += 1
        elif x < p_reader * 1.3 and nsnap:
            events.append(["dropsnap", r.randrange(nsnap)])
        if r.random() < p_clear:
            events.append(["clear"])
            if r.random() < 0.4:
                events.append(["snapshot"])      # what a cleared builder shows before anything new arrives
                nsnap += 1
        if nsnap and r.random() < p_append:
            k = r.randrange(nsnap)
            if r.random() < 0.7:
                events.append(["append", k, r.choice([0, 0, 1, 2, -1, -2, 7])])
            else:
                events.append(["extend", k])
        if r.random() < p_ill:
            events.append(copy.deepcopy(r.choice(ILL)))
        if r.random() < p_alloc:
            events.append(["allocfail", r.choice([0, 0, 1, 2, 3, 5, 8])])     # the next command meets a failing allocation
        events.append(c)
    events.append(["snapshot"])
    if r.random() < 0.3:
        events.append(["dropbuilder"])
    return {"initial": r.choice(INITIAL), "resize": r.choice(RESIZE), "twin": [r.choice(INITIAL), r.choice(RESIZE)],
            "field_mode": r.choice(["fast", "check"]), "via": 1 if r.random() < 0.3 else 0, "events": events,
            "clear_inside": p_clear > 0 and r.random() < 0.3, "sources": sources}


def gen_source(r):
    from ..models import layout_gen as lg
    sg = lg.SpecGen(r, {})
    m = r.randint(1, 5)
    inner = r.choice([["num", "int64"], ["num", "int64"], ["num", "float64"], ["num", "bool"], ["list", ["num", "int64"]], ["str"]])
    content = sg.array(inner, m, wrap=False)
    n = r.randint(1, 5)
    opt = r.random() < 0.35
    idx = [-1 if opt and r.random() < 0.3 else r.randrange(m) for _ in range(n)]
    w = r.choice(["i32", "i64"]) if opt else r.choice(["i32", "u32", "u32", "i64"])
    return {"k": "indexed", "option": opt, "index": lg.mk_index(r, idx, w), "n": n, "content": content}


# ================================================================================================ reference model
class Open:
    __slots__ = ("kind", "pos", "items", "name", "fields", "cur", "fills", "n", "slots")

    def __init__(self, kind, pos):
        self.kind = kind
        self.pos = pos          # Position of the container itself
        self.items = []
        self.name = None
        self.fields = []        # [(key, value)] in arrival order (record)
        self.cur = None         # current key / index
        self.fills = {}         # key/index -> number of values delivered
        self.n = 0
        self.slots = []


class BuilderModel:
    """The builder grammar and the documented unification; says for every command whether it is well-nested."""

    def __init__(self):
        self.root = vm.Position()
        self.completed = []
        self.stack = []
        self.cleared = False

    def clear(self):
        self.root = vm.Position()
        self.completed = []
        self.stack = []
        self.cleared = True

    def target_pos(self):
        """Position at which the next value would arrive, or None when a value is not allowed here."""
        if not self.stack:
            return self.root
        top = self.stack[-1]
        if top.kind == "list":
            return top.pos.list_item()
        if top.cur is None:
            return None
        if top.kind == "rec":
            return top.pos.record_field(top.name, top.cur)
        if top.cur < 0 or top.cur >= top.n:
            return None
        return top.pos.tuple_slots(top.n)[top.cur]

    def deliver(self, v):
        if not self.stack:
            self.completed.append(v)
            return
        top = self.stack[-1]
        if top.kind == "list":
            top.items.append(v)
        elif top.kind == "rec":
            top.fills[top.cur] = top.fills.get(top.cur, 0) + 1
            top.fields = [(k, x) for k, x in top.fields if k != top.cur] + [(top.cur, v)]
        else:
            top.fills[top.cur] = top.fills.get(top.cur, 0) + 1
            top.slots[top.cur] = v

    def legal_value(self):
        return self.target_pos() is not None

    def apply(self, ev):
        """returns True when the command is well-nested (and updates the model), False when it must be refused."""
        k = ev[0]
        if k in ("null", "bool", "int", "real", "complex", "dt", "td", "str", "bytes", "value"):
            P = self.target_pos()
            if P is None:
                return False
            v = event_value(ev)
            if k == "value":
                v = ("app", v)      # taken from another array by append/extend
            vm.absorb(P, v)
            self.deliver(v)
            return True
        if k == "beginlist":
            P = self.target_pos()
            if P is None:
                return False
            P.list_item()
            self.stack.append(Open("list", P))
            return True
        if k == "endlist":
            if not self.stack or self.stack[-1].kind != "list":
                return False
            top = self.stack.pop()
            self.deliver(top.items)
            return True
        if k == "beginrecord":
            P = self.target_pos()
            if P is None:
                return False
            o = Open("rec", P)
            o.name = ev[1]
            P.record(o.name)
            self.stack.append(o)
            return True
        if k == "field":
            if not self.stack or self.stack[-1].kind != "rec":
                return False
            top = self.stack[-1]
            top.cur = ev[1]
            top.pos.record_field(top.name, ev[1])
            return True
        if k == "endrecord":
            if not self.stack or self.stack[-1].kind != "rec":
                return False
            top = self.stack[-1]
            if any(c > 1 for c in top.fills.values()):
                return False            # a field filled more than once
            self.stack.pop()
            self.deliver(("rec", top.name, top.fields))
            return True
        if k == "begintuple":
            P = self.target_pos()
            if P is None or ev[1] < 0:
                return False
            o = Open("tup", P)
            o.n = ev[1]
            o.slots = [None] * ev[1]
            P.tuple_slots(o.n)
            self.stack.append(o)
            return True
        if k == "index":
            if not self.stack or self.stack[-1].kind != "tup":
                return False
            top = self.stack[-1]
            if ev[1] < 0 or ev[1] >= top.n:
                return False
            top.cur = ev[1]
            return True
        if k == "endtuple":
            if not self.stack or self.stack[-1].kind != "tup":
                return False
            top = self.stack[-1]
            if any(c > 1 for c in top.fills.values()):
                return False
            self.stack.pop()
            self.deliver(("tup", top.slots))
            return True
        raise AssertionError(ev)

    def expected(self):
        return [vm.show(self.root, v) for v in self.completed]


def event_value(ev):
    k = ev[0]
    if k == "null":
        return None
    if k == "bool":
        return bool(ev[1])
    if k == "int":
        return ev[1]
    if k == "real":
        return float(ev[1])
    if k == "complex":
        return complex(float(ev[1]), float(ev[2]))
    if k == "dt":
        return ("dt", ev[1], "M8[s]")
    if k == "td":
        return ("dt", ev[1], "m8[s]")
    if k == "str":
        return bytes.fromhex(ev[1]).decode("utf-8")
    if k == "bytes":
        return bytes.fromhex(ev[1])
    if k == "value":
        return vm.from_jsonable(ev[1])
    raise AssertionError(ev)


def record_free(v):
    if isinstance(v, list):
        return all(record_free(x) for x in v)
    if isinstance(v, tuple):
        return v[0] == "dt"
    return True


# ================================================================================================ execution
class B:
    """one real builder"""

    def __init__(self, node, initial, resize, via, field_mode):
        self.node = node
        self.h = node.b_new(initial, resize)
        self.via = via
        self.field_mode = field_mode

    def send(self, ev, arr=0):
        n, k = self.node, ev[0]
        via = self.via
        if k == "null":
            n.b_cmd(self.h, CMD["null"], via)
        elif k == "bool":
            n.b_cmd(self.h, CMD["bool"], via, i=1 if ev[1] else 0)
        elif k == "int":
            n.b_cmd(self.h, CMD["int"], via, i=ev[1])
        elif k == "real":
            n.b_cmd(self.h, CMD["real"], via, d=float(ev[1]))
        elif k == "complex":
            n.b_cmd(self.h, CMD["complex"], 0, d=float(ev[1]), d2=float(ev[2]))
        elif k in ("dt", "td"):
            n.b_cmd(self.h, CMD[k], 0, i=ev[1], s=ev[2].encode())
        elif k == "str":
            n.b_cmd(self.h, CMD["str"], via, s=bytes.fromhex(ev[1]))
        elif k == "bytes":
            n.b_cmd(self.h, CMD["bytes"], via, s=bytes.fromhex(ev[1]))
        elif k in ("beginlist", "endlist", "endtuple", "endrecord", "clear"):
            n.b_cmd(self.h, CMD[k], via)
        elif k == "begintuple":
            n.b_cmd(self.h, CMD["begintuple"], via, i=ev[1])
        elif k == "index":
            n.b_cmd(self.h, CMD["index"], via, i=ev[1])
        elif k == "beginrecord":
            if ev[1] is None:
                n.b_cmd(self.h, CMD["beginrecord"], via)
            else:
                n.b_cmd(self.h, CMD["beginrecord_" + self.field_mode], via, s=ev[1].encode())
        elif k == "field":
            n.b_cmd(self.h, CMD["field_" + self.field_mode], via, s=ev[1].encode())
        elif k == "append":
            n.b_cmd(self.h, CMD["append"], 0, i=ev[2], arr=arr)
        elif k == "extend":
            n.b_cmd(self.h, CMD["extend"], 0, arr=arr)
        else:
            raise AssertionError(ev)


def dump(node, h):
    return vm.loads(node.dump(h))


def execute_many_types(node, case, rec, opts):
    rec.fault("more_types_than_union_tags")
    b = B(node, case["initial"], case["resize"], 0, "check")

    def snap(t):
        try:
            h = node.b_snapshot(b.h)
        except NodeError as e:
            if e.cls not in ("invalid_argument", "runtime_error"):
                raise Violation("robustness", "snapshot_raised", {"at": t, "error": [e.cls, e.msg[:300]]}, at=t)
            rec.probe("many_types_snapshot_refused")
            return
        try:
            err = node.text(h, 3)
        except NodeError as e:
            raise Violation("robustness", "validity_check_raised", {"at": t, "error": [e.cls, e.msg[:300]]}, at=t)
        if err != b"":
            raise Violation("value", "snapshot_is_not_a_valid_layout", {"at": t, "validityerror": err.decode("latin-1")[:300]}, at=t)
        node.drop(h)
    for k in range(1, case["n"] + 1):
        rec.ticks += 1
        try:
            if case["kind"] == "tuples":
                b.send(["begintuple", k]); b.send(["index", 0]); b.send(["int", k]); b.send(["endtuple"])
            else:
                b.send(["beginrecord", "R%d" % k]); b.send(["field", "x"]); b.send(["int", k]); b.send(["endrecord"])
        except NodeError as e:
            if e.cls not in ("invalid_argument", "runtime_error"):
                raise Violation("errors", "unexpected_exception_class", {"k": k, "error": [e.cls, e.msg[:300]]}, at=k)
            rec.probe("many_types_refused")
            break
        if case["snap_every"] and k % case["snap_every"] == 0:
            snap(k)
    snap(case["n"] + 1)
    rec.probe("many_types_survived")


def execute(node, case, rec, opts):
    if case.get("mode") == "layoutbuilder":
        return layoutb.execute(node, case, rec, opts)
    if case.get("mode") == "many_types":
        return execute_many_types(node, case, rec, opts)
    model = BuilderModel()
    b = B(node, case["initial"], case["resize"], case["via"], case["field_mode"])
    twin = B(node, case["twin"][0], case["twin"][1], 0, case["field_mode"])
    builders = [b, twin]
    snaps = []          # per snapshot taken: dict(h, twin_h, value, alive)
    for spec in case.get("sources") or []:
        from ..models import layout_gen as lg
        h, th = lg.realize(node, spec), lg.realize(node, spec)
        snaps.append({"h": h, "twin": th, "value": dump(node, h), "alive": True, "union": False})
    strict = True       # False once a refused command made the builder state unspecified
    relaxed = False     # True once `clear` happened
    alive = True
    nsnap_inside_open = 0
    union_src_used = False   # an append/extend took its elements from a union-typed array (known finding F14)
    pending_fail = None      # countdown for the allocation-failure fault of the next command
    skip_open = 0            # > 0: commands of a value that a clear() inside it interrupted are being skipped
    seam = node.alloc_supported()

    def check_old_snapshots(t, why):
        for si, s in enumerate(snaps):
            if not s["alive"]:
                continue
            try:
                now = dump(node, s["h"])
            except (NodeError, ValueError, UnicodeError, KeyError, IndexError) as x:
                # it read fine when it was taken: whatever makes it unreadable now changed it
                raise Violation("immutability", "snapshot_changed",
                                {"snapshot": si, "after_event": t, "why": why, "was": vm.to_jsonable(s["value"]),
                                 "now": "unreadable: %s: %s" % (type(x).__name__, str(x)[:200])}, at=t)
            if not vm.same(now, s["value"]):
                raise Violation("immutability", "snapshot_changed",
                                {"snapshot": si, "after_event": t, "why": why, "was": vm.to_jsonable(s["value"]),
                                 "now": vm.to_jsonable(now)}, at=t)
            rec.probe("old_snapshot_reread")

    for t, ev in enumerate(case["events"]):
        k = ev[0]
        rec.ticks += 1
        if k == "snapshot":
            if not alive:
                continue
            try:
                h = node.b_snapshot(b.h)
                th = node.b_snapshot(twin.h)
                val = dump(node, h)
                tval = dump(node, th)
                length = node.b_length(b.h, case["via"])
            except NodeError as e:
                if strict:
                    raise Violation("robustness", "snapshot_raised", {"error": [e.cls, e.msg[:300]], "t": t}, at=t)
                rec.ev(t, "snapshot_raised_after_refusal", e.cls)
                snaps.append({"alive": False})
                continue
            snaps.append({"h": h, "twin": th, "value": val, "alive": True,
                          "union": b"UnionArray" in node.text(h, 4) or b"UnionArray" in node.text(h, 6)})
            rec.ev(t, "snapshot", vm.to_jsonable(val))
            if model.stack:
                rec.fault("snapshot_inside_open_structure")
            if strict:
                exp = model.expected()
                if not vm.same(val, exp, numeric=relaxed, lax_fields=relaxed):
                    cls = "snapshot_differs_from_appended_values"
                    if union_src_used and vm.same(val, exp, numeric=True, lax_fields=relaxed):
                        cls = "number_type_not_unified_after_union_typed_append"
                    raise Violation("value", cls,
                                    {"expected": vm.to_jsonable(exp), "observed": vm.to_jsonable(val), "t": t,
                                     "only_number_type_differs": vm.same(val, exp, numeric=True, lax_fields=relaxed),
                                     "union_typed_append_source": union_src_used}, at=t)
                if length != len(exp):
                    # len(builder) is not part of the property statement: recorded, not judged
                    rec.probe("builder_length_differs_from_snapshot_length")
                if not vm.same(val, tval):
                    raise Violation("determinism", "twin_builder_differs",
                                    {"a": vm.to_jsonable(val), "b": vm.to_jsonable(tval), "t": t}, at=t)
                fa, fb = node.text(h, 0), node.text(th, 0)
                if fa != fb and 0 in (case["initial"], case["twin"][0]) and node.text(h, 1) == node.text(th, 1):
                    # a builder whose buffers start with room for 0 items hands out null pointers for its empty buffers;
                    # which node class an *empty, unreachable* part of the snapshot gets (ListArray64 or ListOffsetArray64
                    # after a union of cleared contents is simplified) then differs, the type and the value do not
                    rec.probe("form_of_unreachable_part_differs_with_initial_0")
                elif fa != fb:
                    raise Violation("determinism", "twin_builder_form_differs",
                                    {"a": fa.decode("latin-1"), "b": fb.decode("latin-1")}, at=t)
                verr = node.text(h, 3)
                if verr != b"":
                    raise Violation("value", "snapshot_invalid", {"validityerror": verr.decode("latin-1"),
                                                                  "form": fa.decode("latin-1")}, at=t)
                rec.state((node.text(h, 4).decode(), len(model.stack)))
            continue
        if k == "dropsnap":
            if ev[1] < len(snaps) and snaps[ev[1]]["alive"]:
                node.drop(snaps[ev[1]]["h"])
                node.drop(snaps[ev[1]]["twin"])
                snaps[ev[1]]["alive"] = False
            continue
        if k == "dropbuilder":
            if alive:
                node.drop(b.h)
                node.drop(twin.h)
                alive = False
                rec.fault("drop_builder_first")
                check_old_snapshots(t, "builder dropped")
            continue
        if not alive:
            continue
        if k == "clear":
            if model.stack:
                # without the case's say-so clear only happens between top-level items; with it the call is made while
                # something is open
                if not case.get("clear_inside") or not strict:
                    continue
                try:
                    b.send(ev)
                    twin.send(ev)
                except NodeError as e:
                    raise Violation("robustness", "clear_raised", {"error": [e.cls, e.msg[:300]]}, at=t)
                rec.fault("clear_inside_open_structure")
                rec.ev(t, "clear_inside", len(model.stack))
                check_old_snapshots(t, "clear inside an open structure")
                # a cleared builder holds nothing and has nothing open (F110): the rest of the value that was being
                # appended is not sent, the history goes on with the next top-level value
                skip_open = len(model.stack)
                model.clear()
                relaxed = True
                continue
            try:
                b.send(ev)
                twin.send(ev)
            except NodeError as e:
                raise Violation("robustness", "clear_raised", {"error": [e.cls, e.msg[:300]]}, at=t)
            model.clear()
            relaxed = True
            rec.fault("clear")
            rec.ev(t, "clear")
            check_old_snapshots(t, "clear")
            continue
        if k in ("append", "extend"):
            if ev[1] >= len(snaps) or not snaps[ev[1]]["alive"]:
                continue
            src = snaps[ev[1]]
            elems = src["value"]
            if not isinstance(elems, list) or not record_free(elems):
                continue
            if k == "append":
                at = ev[2]
                reg = at + len(elems) if at < 0 else at
                ok_arg = 0 <= reg < len(elems)
                legal = model.legal_value()
                try:
                    b.send(ev, arr=src["h"])
                    twin.send(ev, arr=src["twin"])
                    raised = None
                except NodeError as e:
                    raised = e
                if not ok_arg:
                    if raised is None or raised.cls != "invalid_argument":
                        raise Violation("errors", "append_out_of_range_not_refused", {"at": at, "len": len(elems)}, at=t)
                    rec.probe("append_out_of_range_refused")
                    # refused before touching the builder: the history goes on (twin got the same refusal)
                    continue
                if not legal:
                    if strict and (raised is None or raised.cls != "invalid_argument"):
                        raise Violation("errors", "ill_nested_call_accepted", {"event": ev, "t": t}, at=t)
                    strict = False
                    rec.fault("ill_nested")
                    continue
                if raised is not None:
                    if strict:
                        raise Violation("errors", "well_nested_call_refused",
                                        {"event": ev, "error": [raised.cls, raised.msg[:300]]}, at=t)
                    continue
                model.apply(["value", vm.to_jsonable(elems[reg])])
                union_src_used = union_src_used or src["union"]
                rec.fault("builder_holds_reference")
            else:
                if not model.legal_value() or (model.stack and model.stack[-1].kind != "list"):
                    continue        # extend is only generated where several values may follow each other
                try:
                    b.send(ev, arr=src["h"])
                    twin.send(ev, arr=src["twin"])
                except NodeError as e:
                    if strict:
                        raise Violation("errors", "well_nested_call_refused", {"event": ev, "error": [e.cls, e.msg[:300]]}, at=t)
                    continue
                for x in elems:
                    model.apply(["value", vm.to_jsonable(x)])
                union_src_used = union_src_used or src["union"]
                rec.fault("builder_holds_reference")
            rec.ev(t, k, ev[1:])
            check_old_snapshots(t, k)
            continue

        if k == "allocfail":
            pending_fail = ev[1] if seam else None
            continue

        # ---- an ordinary builder command
        if skip_open:
            # the remainder of the top-level value that clear() interrupted
            if k in ("beginlist", "beginrecord", "begintuple"):
                skip_open += 1
            elif k in ("endlist", "endrecord", "endtuple"):
                skip_open -= 1
            continue
        legal = model.apply(ev) if strict else None
        raised = None
        if pending_fail is not None:
            node.alloc_arm(pending_fail)
        try:
            b.send(ev)
        except NodeError as e:
            raised = e
        if pending_fail is not None:
            fired, _ = node.alloc_disarm()
            pending_fail = None
            if fired:
                # a command that met an allocation failure may raise anything ordinary; what it leaves behind in the
                # builder is unspecified (like after a refused call) - older snapshots must not care, nothing may crash
                rec.fault("allocation_failure")
                rec.ev(t, ev, "alloc_failure", None if raised is None else raised.cls)
                if raised is not None and raised.cls == "nonstd":
                    raise Violation("robustness", "nonstd_exception", {"event": ev, "error": [raised.cls, raised.msg[:300]]}, at=t)
                strict = False
                check_old_snapshots(t, "allocation failure in " + ev[0])
                rec.probe("allocation_failure_survived")
                continue
        traised = None
        try:
            twin.send(ev)
        except NodeError as e:
            traised = e
        rec.ev(t, ev, None if raised is None else raised.cls)
        if raised is not None and raised.cls not in ("invalid_argument",):
            raise Violation("errors", "unexpected_exception_class", {"event": ev, "error": [raised.cls, raised.msg[:300]]}, at=t)
        if strict:
            if (raised is None) != (traised is None):
                raise Violation("determinism", "twin_builder_error_differs", {"event": ev, "t": t}, at=t)
            if legal and raised is not None:
                raise Violation("errors", "well_nested_call_refused",
                                {"event": ev, "t": t, "error": [raised.cls, raised.msg[:300]]}, at=t)
            if not legal:
                if raised is None:
                    raise Violation("errors", "ill_nested_call_accepted", {"event": ev, "t": t}, at=t)
                rec.fault("ill_nested")
                strict = False     # the state after a refused call is not specified: only old snapshots are still checked
        check_old_snapshots(t, ev[0])

    check_old_snapshots(len(case["events"]), "end of run")
    if nsnap_inside_open:
        pass


# ================================================================================================ measures
def signature(case):
    if case.get("mode") == "layoutbuilder":
        return layoutb.signature(case)
    if case.get("mode") == "many_types":
        return [stable_hash(["many_types", case["kind"], case["n"] > 127]), True]
    kinds = []
    last = None
    for ev in case["events"]:
        k = ev[0]
        if k != last:
            kinds.append(k)
        last = k
    cfg = [case["initial"] <= 4, case["twin"][0] <= 4, case["field_mode"], case["via"]]
    return [stable_hash([kinds, cfg]), len(case["events"]) >= 5]


def describe(case):
    if case.get("mode") == "layoutbuilder":
        return layoutb.describe(case)
    if case.get("mode") == "many_types":
        return dict(case)
    return {"initial": case["initial"], "resize": case["resize"], "twin": case["twin"], "field_mode": case["field_mode"],
            "via_extern_c": case["via"], "clear_inside": bool(case.get("clear_inside")), "events": case["events"]}


# ================================================================================================ shrinking
def shrink_candidates(case):
    if case.get("mode") == "layoutbuilder":
        yield from layoutb.shrink_candidates(case)
        return
    if case.get("mode") == "many_types":
        for n in (128, 129):
            if n < case["n"]:
                d = copy.deepcopy(case); d["n"] = n; yield d
        return
    ev = case["events"]
    n = len(ev)
    size = n // 2
    while size >= 1:
        for start in range(0, n, size):
            d = copy.deepcopy(case)
            del d["events"][start:start + size]
            yield d
        size //= 2
    # remove a begin together with its matching end (keeping the content)
    for i, e in enumerate(ev):
        if e[0] in ("beginlist", "beginrecord", "begintuple"):
            j = matching_end(ev, i)
            if j is not None:
                d = copy.deepcopy(case)
                del d["events"][j]
                del d["events"][i]
                yield d
                d = copy.deepcopy(case)
                del d["events"][i:j + 1]
                yield d
    for key, val in (("initial", 1024), ("resize", 1.5), ("via", 0), ("field_mode", "check")):
        if case[key] != val:
            d = copy.deepcopy(case)
            d[key] = val
            yield d
    if case["twin"] != [1024, 1.5]:
        d = copy.deepcopy(case)
        d["twin"] = [1024, 1.5]
        yield d
    for i, e in enumerate(ev):
        if e[0] == "int" and e[1] not in (0, 1):
            d = copy.deepcopy(case); d["events"][i] = ["int", 1]; yield d
        if e[0] == "real" and e[1] != "1.5":
            d = copy.deepcopy(case); d["events"][i] = ["real", "1.5"]; yield d
        if e[0] == "str" and e[1] != "61":
            d = copy.deepcopy(case); d["events"][i] = ["str", "61"]; yield d
        if e[0] == "bytes" and e[1] != "61":
            d = copy.deepcopy(case); d["events"][i] = ["bytes", "61"]; yield d
        if e[0] not in ("null", "snapshot") and e[0] in ("bool", "int", "real", "str", "bytes", "complex", "dt", "td"):
            d = copy.deepcopy(case); d["events"][i] = ["null"]; yield d


def matching_end(ev, i):
    pairs = {"beginlist": "endlist", "beginrecord": "endrecord", "begintuple": "endtuple"}
    depth = 0
    for j in range(i, len(ev)):
        if ev[j][0] in pairs:
            depth += 1
        elif ev[j][0] in pairs.values():
            depth -= 1
            if depth == 0:
                return j if ev[j][0] == pairs[ev[i][0]] else None
    return None


# ================================================================================================ check metadata
def tier_opts(tier):
    if tier == "thorough":
        return {"runs": 600000, "determinism_sample": 1024, "perturb_sample": 3000, "asan_runs": 100000,
                "builder_max_values": 14, "run_timeout": 30.0, "shrink_per_class": 3, "mutants": True}
    return {"asan_runs": 6000, "runs": 60000, "determinism_sample": 64, "perturb_sample": 400, "builder_max_values": 8,
            "run_timeout": 6.0, "shrink_per_class": 2}


ASSUMPTIONS = [
    "the unification model (simfw/models/value_model.py, builder.BuilderModel) is written from the property text: "
    "ints become floats (complex) when a float (complex) arrived at the same type position, None is transparent, "
    "records of one name at one position share their fields in first-appearance order with absent fields None",
    "type knowledge is taken from everything appended so far, including items of still-open lists/records/tuples",
    "after a refused (ill-nested) call the builder state is unspecified: only immutability of older snapshots and "
    "survival of the process are still checked",
    "clear() while a list, record or tuple is open leaves a builder that holds nothing and has nothing open (what "
    "RecordBuilder and TupleBuilder always did, F6/F110): the commands of the interrupted value are not sent",
    "in histories containing clear(), numbers compare numerically and records may carry extra all-None fields "
    "(the property does not say whether type knowledge survives clear)",
    "append/extend sources are snapshots taken earlier in the run whose element type is record-free, and driver-built "
    "IndexedArray32/U32/64 / IndexedOptionArray32/64 over numbers, strings or lists of numbers; the *_fast "
    "entry points get interned names (address equality = string equality)",
    "ak.from_iter / ak.ArrayBuilder (pybind11, Python) cannot be built here: the same command stream is issued "
    "through the C++ ArrayBuilder API and the extern \"C\" awkward_ArrayBuilder_* functions",
    "LayoutBuilder (a quarter of the runs, machines/layoutb.py) is driven inside the grammar this version implements: "
    "bool/int64/float64 leaves, strings, ListOffsetArray64, RegularArray (size >= 1), RecordArray whose direct fields "
    "are leaves, strings or lists, IndexedOptionArray64 and UnionArray8_64 of leaves outside records, UnmaskedArray; an "
    "option's content does not itself start with an optional value (the command 'null' would be ambiguous). Not "
    "implemented by the component and therefore not generated: complex128 (no Forth output dtype), null for "
    "Byte/BitMasked forms, unions of lists, option/union/record/regular fields directly in a record, length()",
    "a LayoutBuilder snapshot taken in the middle of a value only has to be survivable (it may be an unreadable "
    "layout); values and validity are compared at value boundaries",
]
COMPONENTS = {"real": ["src/libawkward/builder/*.cpp", "GrowableBuffer", "array classes produced by snapshot()",
                       "src/libawkward/layoutbuilder/*.cpp with the ForthMachine32 it compiles its Form into (Form::fromjson)",
                       "simplify_uniontype / simplify_optiontype", "validityerror", "Form::tojson"],
              "stub": ["rapidjson (framework stub; used by Form::tojson and parameter comparison)"],
              "absent": ["pybind11 layer (builder_fromiter)", "Python layer (ak.from_iter, ak.ArrayBuilder, ak.layout.LayoutBuilder32/64)"]}
RULE = ("one run = seeded typed value trees linearised into the builder alphabet exactly as from_iter would issue "
        "them, interleaved with reader events (snapshot, re-read of every live older snapshot after every event, "
        "drop), clear, append/extend of earlier snapshots, ill-nested commands and builder destruction; a twin builder "
        "with other growth settings receives the same commands. distinct = hash of (run-length-collapsed command "
        "kind sequence, knob classes); non-trivial = at least 5 events or a fault kind fired. A quarter of the runs drive "
        "the Form-driven LayoutBuilder instead: a seeded type, its Form, seeded values as command sequences, snapshots "
        "at value boundaries and in the middle of values, a twin under other growth settings, one ill-typed or "
        "ill-nested command")
REQUIRED_PROBES = {"quick": ["allocation_failure_survived", "old_snapshot_reread", "lb_snapshots_compared", "lb_old_snapshot_reread"],
                   "thorough": ["old_snapshot_reread", "append_out_of_range_refused", "lb_snapshots_compared", "lb_ill_refused"]}


def match_predicate(where, case, violation):
    if not where:
        return True
    kinds = [e[0] for e in case["events"]]
    if where.get("kind") == "detail_flags":
        d = violation.get("detail") or {}
        return all(d.get(k) == v for k, v in where["flags"].items())
    if where.get("kind") == "event_seq":
        seq = where["seq"]
        it = iter(kinds)
        return all(any(k == s for k in it) for s in seq)
    return False
