"""C19 — AwkwardForth under a seeded step/run/resume/call scheduler (DESIGN.md section 5)."""
from __future__ import annotations

import copy
import re

from ..core import Discard, Violation, stable_hash
from ..models import forth_model as fm
from ..node import NodeError

PROP = "C19"

STACK_MAX = [1024] * 24 + [1, 2, 3, 4, 5, 6, 8, 16]
REC_MAX = [1024] * 21 + [1, 2, 3, 4, 5, 6, 16]
OUT_INIT = [0, 1, 2, 3, 5, 8, 1024]
OUT_RESIZE = [1.01, 1.25, 1.5, 2.0, 3.7]
EDGE32 = [0, 1, -1, 2, -2, 3, 5, 7, 8, 10, 31, 32, 33, 63, 64, 100, 127, 128, 255, 256, 32767, 32768, 65535,
          65536, 2147483647, -2147483648, -2147483647, 1073741824, 16777216, 16777217]
SMALL = [0, 1, 2, 3, 4, 5, 6]
STEP_K = [1, 1, 1, 1, 2, 2, 3, 5, 8, 13, 50]

FIXED = ["?", "b", "h", "i", "q", "n", "B", "H", "I", "Q", "N", "f", "d"]
NOSWAP = ("?", "b", "B")


# ================================================================================================ generator
class Gen:
    def __init__(self, rng, opts):
        self.r = rng
        self.max_words = opts.get("forth_max_words", 40)
        self.counters = 0

    def program(self):
        r = self.r
        self.vars = ["v%d" % i for i in range(r.choice([0, 1, 1, 2]))]
        self.inputs = ["x%d" % i for i in range(r.choice([0, 1, 1, 1, 2]))]
        self.outputs = [["y%d" % i, r.choice(fm.DTYPES)] for i in range(r.choice([0, 1, 1, 2]))]
        self.defs = []
        self.enabled = self.swarm()
        self.hex_literals = r.random() < 0.3
        ndefs = r.choice([0, 0, 1, 1, 2, 3])
        budget = self.max_words
        for i in range(ndefs):
            name = "w%d" % i
            b = max(3, budget // (ndefs + 1))
            if r.random() < 0.25:
                body = self.recursive_template(name)
            else:
                body, _ = self.seq(r.randint(0, 2), b, {"def": name, "do": 0, "loop": 0})
            self.defs.append([name, body])
        d0 = 0
        main, _ = self.seq(d0, max(4, budget // (ndefs + 1)), {"def": None, "do": 0, "loop": 0})
        # make sure definitions get used
        for name, _ in self.defs:
            if r.random() < 0.8:
                pos = r.randint(0, len(main))
                main[pos:pos] = [["lit", r.choice(SMALL)], ["call", name]]
        if self.enabled["pause"] and r.random() < 0.5:
            main.insert(r.randint(0, len(main)), ["pause"])
        if len(self.inputs) > 1 and r.random() < 0.5:
            self.inputs = self.inputs[::-1]      # declared in another order than the names sort
        prog = {"vars": self.vars + ["c%d" % i for i in range(self.counters)], "inputs": self.inputs,
                "outputs": self.outputs, "defs": self.defs, "main": main}
        return prog

    def swarm(self):
        r = self.r
        kinds = ["arith", "stackops", "compare", "bits", "if", "do", "begin", "vars", "reads", "inops", "outs",
                 "calls", "pause", "exit", "halt", "strings", "divs", "shifts", "edge_literals", "underflow"]
        en = {k: r.random() < 0.7 for k in kinds}
        en["halt"] = r.random() < 0.25
        en["exit"] = r.random() < 0.4
        en["underflow"] = r.random() < 0.3
        return en

    def recursive_template(self, name):
        r = self.r
        inner, _ = self.seq(1, 3, {"def": name, "do": 0, "loop": 0})
        return [["w", "dup"], ["lit", 0], ["w", ">"],
                ["if", [["w", "1-"]] + (inner if r.random() < 0.3 else []) + [["recurse"]]]]

    def lit(self):
        node = self._lit()
        if self.hex_literals and node[1] >= 0 and self.r.random() < 0.3:
            node.append(self.r.choice(["x", "x", "X"]))      # written as 0x1f / 0x1F
        return node

    def _lit(self):
        r = self.r
        if self.enabled["edge_literals"] and r.random() < 0.3:
            return ["lit", r.choice(EDGE32)]
        if r.random() < 0.15:
            return ["lit", r.randint(-2147483648, 2147483647)]
        return ["lit", r.randint(-9, 20)]

    def seq(self, d, budget, ctx):
        """returns (body, estimated depth after). d = estimated stack depth on entry."""
        r = self.r
        body = []
        n = r.randint(1, max(1, budget))
        used = 0
        while used < n:
            node, d, cost = self.node(d, n - used, ctx)
            if node is None:
                continue
            body.extend(node)
            used += cost
        return body, d

    def node(self, d, budget, ctx):
        r = self.r
        en = self.enabled
        sloppy = en["underflow"] and r.random() < 0.08     # ignore the depth estimate now and then
        x = r.random()
        if x < 0.22 or (d == 0 and not sloppy and x < 0.6):
            return [self.lit()], d + 1, 1
        if x < 0.50:
            return self.generic(d, sloppy)
        if x < 0.62 and budget >= 3:
            return self.control(d, budget, ctx, sloppy)
        if x < 0.68 and self.vars and en["vars"]:
            v = r.choice(self.vars)
            op = r.choice(["!", "+!", "@", "@"])
            if op == "@":
                return [["var", v, "@"]], d + 1, 1
            if d >= 1 or sloppy:
                return [["var", v, op]], max(0, d - 1), 1
            return None, d, 0
        if x < 0.80 and self.inputs and (en["reads"] or en["inops"]):
            return self.input_node(d, sloppy)
        if x < 0.90 and self.outputs and en["outs"]:
            return self.output_node(d, sloppy)
        if x < 0.93 and self.defs and en["calls"]:
            name = r.choice(self.defs)[0]
            if ctx["def"] is not None:
                # only words defined before the one being defined
                earlier = [nm for nm, _ in self.defs]
                if not earlier:
                    return None, d, 0
                name = r.choice(earlier)
            pre = [] if d >= 1 else [["lit", r.choice(SMALL)]]
            return pre + [["call", name]], max(d, 1), 1 + len(pre)
        if x < 0.95 and en["pause"]:
            return [["pause"]], d, 1
        if x < 0.96 and en["exit"]:
            return [["exit"]], d, 1
        if x < 0.965 and en["halt"]:
            return [["halt"]], d, 1
        if x < 0.98 and en["strings"]:
            # no quotes or backslashes: the tokenizer's escape handling is outside the documented vocabulary
            t = r.choice(["abc", "q", "hello world", "x y  z", "1 2 +", ": ;"])
            if r.random() < 0.5:
                return [["s", t]], d + 1, 1
            return [["p", t]], d, 1
        if x < 0.99 and en["strings"] and (d >= 1 or sloppy):
            return [["w", r.choice([".", "cr", ".s"])]], d, 1
        return None, d, 0

    def generic(self, d, sloppy):
        r = self.r
        en = self.enabled
        pool = []
        if en["stackops"]:
            pool += [("dup", 1, 1), ("drop", 1, -1), ("swap", 2, 0), ("over", 2, 1), ("rot", 3, 0), ("nip", 2, -1),
                     ("tuck", 2, 1)]
        if en["arith"]:
            pool += [("+", 2, -1), ("-", 2, -1), ("*", 2, -1), ("negate", 1, 0), ("1+", 1, 0), ("1-", 1, 0),
                     ("abs", 1, 0), ("min", 2, -1), ("max", 2, -1)]
        if en["divs"]:
            pool += [("/", 2, -1), ("mod", 2, -1), ("/mod", 2, 0)]
        if en["compare"]:
            pool += [("=", 2, -1), ("<>", 2, -1), (">", 2, -1), (">=", 2, -1), ("<", 2, -1), ("<=", 2, -1),
                     ("0=", 1, 0), ("true", 0, 1), ("false", 0, 1)]
        if en["bits"]:
            pool += [("invert", 1, 0), ("and", 2, -1), ("or", 2, -1), ("xor", 2, -1)]
        if not pool:
            return [self.lit()], d + 1, 1
        w, need, eff = r.choice(pool)
        if en["shifts"] and r.random() < 0.06 and (d >= 1 or sloppy):
            # shift by a literal count, mostly in range
            cnt = r.choice([0, 1, 2, 7, 8, 15, 16, 30, 31]) if r.random() < 0.9 else r.choice([32, 33, 63, 64, -1])
            return [["lit", cnt], ["w", r.choice(["lshift", "rshift"])]], d, 2
        if d < need and not sloppy:
            return None, d, 0
        if w in ("/", "mod", "/mod") and r.random() < 0.8:
            # put a (mostly non-zero) literal divisor on top
            dv = r.choice([1, 2, 3, -1, -2, -3, 7, -7, 10, 0]) if r.random() < 0.9 else r.choice(EDGE32)
            if d >= 1 or sloppy:
                return [["lit", dv], ["w", w]], d + (1 if w == "/mod" else 0), 2
            return None, d, 0
        return [["w", w]], max(0, d + eff), 1

    def control(self, d, budget, ctx, sloppy):
        r = self.r
        en = self.enabled
        kinds = []
        if en["if"]:
            kinds += ["if", "ifelse"]
        if en["do"] and ctx["loop"] < 2:
            kinds += ["do", "do", "+do"]
        if en["begin"] and ctx["loop"] < 2:
            kinds += ["until", "while", "again"]
        if not kinds:
            return None, d, 0
        k = r.choice(kinds)
        inner = max(1, min(budget - 2, 6))
        if k in ("if", "ifelse"):
            pre = []
            if d < 1 and not sloppy:
                pre = [["lit", r.choice([0, 1, -1])]]
                d += 1
            b1, d1 = self.seq(d - 1, inner, ctx)
            if k == "if":
                return pre + [["if", b1]], min(d - 1, d1), 2 + fm.count_nodes(b1)
            b2, d2 = self.seq(d - 1, inner, ctx)
            return pre + [["ifelse", b1, b2]], max(0, min(d1, d2)), 3 + fm.count_nodes(b1) + fm.count_nodes(b2)
        c2 = dict(ctx)
        c2["loop"] = ctx["loop"] + 1
        if k in ("do", "+do"):
            c2["do"] = ctx["do"] + 1
            start = r.choice([0, 0, 0, 1, 2, -1])
            stop = start + r.choice([0, 1, 2, 3, 3, 4, 5])
            if r.random() < 0.05:
                stop = start - 1
            body, _ = self.seq_in_loop(d, inner, c2)
            if k == "+do":
                body = body + [["lit", r.choice([1, 1, 2, 3, 5])]]
            if self.enabled["pause"] and r.random() < 0.25:
                body = body + [["pause"]]      # pause as the last instruction of a loop body
                if k == "+do":
                    body[-2], body[-1] = body[-1], body[-2]
                    if r.random() < 0.5:
                        body[-2], body[-1] = body[-1], body[-2]
            return [["lit", stop], ["lit", start], [k, body]], d, 3 + fm.count_nodes(body)
        # begin loops: bounded by a private counter variable
        if self.counters >= 3:
            return None, d, 0
        c = "c%d" % self.counters
        self.counters += 1
        limit = r.choice([1, 2, 3, 4])
        body, _ = self.seq(d, inner, c2)
        tick = [["var", c, "@"], ["w", "1+"], ["w", "dup"], ["var", c, "!"], ["lit", limit]]
        init = [["lit", 0], ["var", c, "!"]]
        if k == "until":
            return init + [["until", body + tick + [["w", ">="]]]], d, 8 + fm.count_nodes(body)
        if k == "while":
            post, _ = self.seq(d, max(1, inner // 2), c2)
            return init + [["while", body + tick + [["w", "<"]], post]], d, 9 + fm.count_nodes(body) + fm.count_nodes(post)
        # again: leave through exit (inside a definition or the main program) or halt
        leave = ["exit"] if (self.enabled["exit"] or not self.enabled["halt"]) else ["halt"]
        return init + [["again", body + tick + [["w", ">="], ["if", [leave]]]]], d, 10 + fm.count_nodes(body)

    def seq_in_loop(self, d, budget, ctx):
        r = self.r
        body, d2 = self.seq(d, budget, ctx)
        if r.random() < 0.6:
            idx = r.choice(["i"] + (["j"] if ctx["do"] >= 2 else []) + (["k"] if ctx["do"] >= 3 else []))
            body.insert(r.randint(0, len(body)), ["w", idx])
            if r.random() < 0.5:
                body.insert(r.randint(0, len(body)), ["w", "drop"]) if False else None
        return body, d2

    def input_node(self, d, sloppy):
        r = self.r
        x = r.choice(self.inputs)
        if self.enabled["inops"] and (not self.enabled["reads"] or r.random() < 0.3):
            op = r.choice(["len", "pos", "end", "seek", "skip"])
            if op in ("len", "pos", "end"):
                return [["in", x, op]], d + 1, 1
            arg = r.choice([0, 0, 1, 2, 3, 4, 8, -1, -2, 100]) if r.random() < 0.9 else r.choice(EDGE32)
            return [["lit", arg], ["in", x, op]], d, 2
        # a read
        kind = r.random()
        rep = r.random() < 0.3
        big = r.random() < 0.3
        if kind < 0.12:
            core = r.choice(["varint", "zigzag"])
            big = False
        elif kind < 0.22:
            nb = r.choice([1, 2, 3, 4, 5, 7, 8, 9, 12, 16, 17, 24, 31]) if r.random() < 0.93 else r.choice([32, 33, 40, 57, 64])
            core = "%dbit" % nb
        else:
            core = r.choice(FIXED)
            if core in NOSWAP:
                big = False
        dest = "stack"
        same_type_into = None
        if self.outputs and r.random() < 0.5:
            out = r.choice(self.outputs)
            dest = out[0]
            same = {"bool": "?", "int8": "b", "int16": "h", "int32": "i", "int64": "q", "uint8": "B", "uint16": "H",
                    "uint32": "I", "uint64": "Q", "float32": "f", "float64": "d"}.get(out[1])
            if same and kind >= 0.22 and r.random() < 0.4:
                # items of the output's own type: the machine copies them in one piece (a path of its own per type)
                core = same
                big = r.random() < 0.4 and core not in NOSWAP
                rep = rep or r.random() < 0.5
                same_type_into = out[0]
        parser = ("#" if rep else "") + ("!" if big else "") + core + "->"
        pre = []
        nd = d
        cnt = 1
        if rep:
            cnt = r.choice([0, 1, 2, 2, 3, 4, 5]) if r.random() < 0.95 else r.choice([-1, -2, 1000000, 2147483647])
            pre = [["lit", cnt]]
            if r.random() < 0.02:
                # a count whose size in bytes does not fit 64 bits (2**61 or 2**61 + 1 items)
                cnt = 1 << 61
                pre = [["lit", 1], ["lit", 61], ["w", "lshift"]] + ([["w", "1+"]] if r.random() < 0.5 else [])
        if dest == "stack":
            nd = d + max(0, min(cnt, 8))
        if same_type_into is not None and rep and r.random() < 0.5:
            # ... appended to an output that already holds something, two or more items at a time
            pre = [["lit", r.choice([1, 2, 3])], ["out", same_type_into, "<-"], ["lit", r.choice([2, 2, 3, 4])]]
        return pre + [["read", x, parser, dest]], nd, 1 + len(pre)

    def output_node(self, d, sloppy):
        r = self.r
        y = r.choice(self.outputs)[0]
        op = r.choice(["<-", "<-", "<-", "+<-", "+<-", "dup", "len", "rewind"])
        if op == "len":
            return [["out", y, "len"]], d + 1, 1
        if op in ("dup", "rewind"):
            arg = r.choice([0, 1, 1, 2, 3]) if r.random() < 0.92 else r.choice([-1, -3, 100])
            return [["lit", arg], ["out", y, op]], d, 2
        if d >= 1 or sloppy:
            return [["out", y, op]], max(0, d - 1), 1
        return [self.lit(), ["out", y, op]], d, 2


def has_bool_read(prog):
    def walk(body):
        for n in body:
            if n[0] == "read" and fm.parse_parser(n[2])[2] == "?":
                return True
            if n[0] in ("if", "do", "+do", "until", "again") and walk(n[1]):
                return True
            if n[0] in ("ifelse", "while") and (walk(n[1]) or walk(n[2])):
                return True
        return False
    return any(walk(b) for _, b in prog["defs"]) or walk(prog["main"])


def gen_input_bytes(r, boolean_only):
    n = r.choice([0, 1, 2, 3, 4, 7, 8, 9, 12, 16, 17, 24, 32, 40, 48, 64])
    style = r.random()
    if boolean_only:
        return bytes(r.choice([0, 1]) for _ in range(n))
    if style < 0.3:
        return bytes(r.randint(0, 255) for _ in range(n))
    if style < 0.5:
        return bytes(r.choice([0, 1, 2, 3, 0x7F, 0x80, 0x81, 0xFF, 0xFE]) for _ in range(n))
    if style < 0.65:
        # varint-ish: runs of continuation bytes
        return bytes(r.choice([0x80, 0x81, 0xFF, 0x01, 0x7F, 0x00, 0x8F]) for _ in range(n))
    if style < 0.8:
        import struct
        vals = [r.choice([0.0, 1.0, -1.5, 2.5, 100.25, -3.0, 1e10, 65536.0, 0.5]) for _ in range(n // 8 + 1)]
        return struct.pack("<%dd" % len(vals), *vals)[:n]
    if style < 0.9:
        import struct
        vals = [r.choice([0.0, 1.0, -1.5, 2.5, 100.25, -3.0, 65536.0, 0.5]) for _ in range(n // 4 + 1)]
        return struct.pack("<%df" % len(vals), *vals)[:n]
    return bytes(r.randint(0, 9) for _ in range(n))


def gen_schedule(r):
    n = r.randint(1, 6)
    out = []
    for _ in range(n):
        if r.random() < 0.3:
            out.append(["resume"])
        else:
            out.append(["step", r.choice(STEP_K)])
    if all(a[0] == "resume" for a in out):
        out.append(["step", 1])
    return out


def generate(rng, opts):
    g = Gen(rng, opts)
    prog = g.program()
    boolean_only = has_bool_read(prog)
    inputs = {x: gen_input_bytes(rng, boolean_only).hex() for x in prog["inputs"]}
    scheds = [gen_schedule(rng) for _ in range(opts.get("forth_schedules", 3))]
    if rng.random() < 0.5:
        scheds[0] = [["step", 1]]
    case = {"program": prog, "width": rng.choice([32, 64]), "stack_max": rng.choice(STACK_MAX),
            "rec_max": rng.choice(REC_MAX), "out_init": rng.choice(OUT_INIT), "out_resize": rng.choice(OUT_RESIZE),
            "alt_growth": [rng.choice(OUT_INIT), rng.choice(OUT_RESIZE)],
            "inputs": inputs, "schedules": scheds,
            "calls": [rng.choice(prog["defs"])[0] for _ in range(rng.randint(0, 3))] if prog["defs"] else [],
            "rerun": rng.random() < 0.5, "misuse": rng.random() < 0.3, "mutate_source": None,
            "sweep": rng.random() < opts.get("forth_sweep_share", 0.04)}
    if rng.random() < opts.get("forth_illformed_rate", 0.12):
        case["mutate_source"] = gen_source_mutation(rng, fm.render(prog))
    # comments (no meaning; their text may mention the string words)
    case["comments"] = rng.choice([1, 2, 3]) if rng.random() < 0.08 else 0
    # a newline instead of a blank between the two words of a declaration or an input accessor
    case["newlines"] = rng.random() < 0.05
    # user words called while the program is paused: [number of the pause, word]
    case["calls_at_pause"] = [[rng.choice([1, 1, 2, 3]), rng.choice(prog["defs"])[0]] for _ in range(rng.randint(0, 2))] \
        if prog["defs"] else []
    return case


RESERVED = [":", ";", "recurse", "variable", "input", "output", "halt", "pause", "if", "then", "else", "do", "loop",
            "+loop", "begin", "again", "until", "while", "repeat", "exit", "!", "+!", "@", "len", "pos", "end",
            "seek", "skip", "<-", "+<-", "stack", "rewind", '."', 's"', "(", ")", "\\", "i", "j", "k", "int32",
            "nosuchword", "12abc", "0x", "-0x1", "99999999999999999999", "x0", "y0", "v0", "w0", "#b->", "65bit->",
            "0bit->", "!?->"]


# words that are neither in the vocabulary nor numbers nor names a generated program defines: a text that ends with
# one of them (top-level code context) is not a program and must be refused at compile time
NOT_WORDS = ["nosuchword", "12abc", "0x", "0x1G", "1e5", "3.14", "--1", "7bitt->", "#", "!i->>", "loops"]


MUST_REFUSE = ("append_not_a_word", "misspell_nbit")
_NBIT = re.compile(r"^([#!]*)(\d+)(bit->)$")


def gen_source_mutation(r, text):
    if r.random() < 0.15:
        return [["append_not_a_word", 0, r.choice(NOT_WORDS)]]
    toks = text.split(" ")
    nbit = [i for i, t in enumerate(toks) if _NBIT.match(t)]
    if nbit and r.random() < 0.4:
        # a read word whose bit count is not a number: '5xbit->' is not the word '5bit->' (F108)
        i = r.choice(nbit)
        m = _NBIT.match(toks[i])
        bad = r.choice([m.group(2) + "x", "+" + m.group(2), m.group(2) + ".0", "0x" + m.group(2), m.group(2) + "_"])
        return [["misspell_nbit", toks[i], m.group(1) + bad + m.group(3)]]
    ops = []
    for _ in range(r.choice([1, 1, 2, 3])):
        kind = r.choice(["drop", "dup", "insert", "swap", "replace", "cut"])
        pos = r.randint(0, max(0, len(toks) - 1))
        ops.append([kind, pos, r.choice(RESERVED)])
    return ops


def apply_source_mutation(text, ops):
    if ops and ops[0][0] == "append_not_a_word":
        return text.rstrip("\n") + "\n" + ops[0][2] + "\n"
    toks = text.split(" ")
    if ops and ops[0][0] == "misspell_nbit":
        # the first occurrence of the well-spelt word (comment texts, which shift positions, contain none)
        if ops[0][1] in toks:
            toks[toks.index(ops[0][1])] = ops[0][2]
        return " ".join(toks)
    for kind, pos, word in ops:
        if not toks:
            break
        pos = min(pos, len(toks) - 1)
        if kind == "drop":
            del toks[pos]
        elif kind == "dup":
            toks.insert(pos, toks[pos])
        elif kind == "insert":
            toks.insert(pos, word)
        elif kind == "swap" and pos + 1 < len(toks):
            toks[pos], toks[pos + 1] = toks[pos + 1], toks[pos]
        elif kind == "replace":
            toks[pos] = word
        elif kind == "cut":
            toks = toks[:pos]
    return " ".join(toks)


# ================================================================================================ execution
STATE_KEYS = ("ready", "done", "stack", "vars", "outs", "pos")


def view(err, st):
    v = {k: st[k] for k in STATE_KEYS}
    v["err"] = err
    return v


def same_view(a, b):
    if a == b:
        return True
    for k in a:
        if k == "outs":
            if not same_outs(a[k], b[k]):
                return False
        elif a[k] != b[k]:
            return False
    return True


def same_outs(a, b):
    import math
    import struct
    if len(a) != len(b):
        return False
    for x, y in zip(a, b):
        if x == y:
            continue
        if x[:3] != y[:3] or x[1] not in ("float32", "float64"):
            return False
        code = "f" if x[1] == "float32" else "d"
        xb, yb = bytes.fromhex(x[3]), bytes.fromhex(y[3])
        if len(xb) != len(yb):
            return False
        n = len(xb) // struct.calcsize(code)
        xv = struct.unpack("<%d%s" % (n, code), xb)
        yv = struct.unpack("<%d%s" % (n, code), yb)
        for p, q in zip(xv, yv):
            if p != q and not (math.isnan(p) and math.isnan(q)):
                return False
            if p == q == 0 and math.copysign(1, p) != math.copysign(1, q):
                return False
    return True


def diff_view(a, b):
    return {k: [a.get(k), b.get(k)] for k in a if a.get(k) != b.get(k)}


class Driver:
    def __init__(self, node, case, rec):
        self.node = node
        self.case = case
        self.rec = rec
        self.inputs = {k: bytes.fromhex(v) for k, v in case["inputs"].items()}

    def machine(self, src: bytes, width=None, stack_max=None, rec_max=None, out_init=None, out_resize=None):
        c = self.case
        h = self.node.fm_new(width or c["width"], src, stack_max or c["stack_max"], rec_max or c["rec_max"],
                             out_init or c["out_init"], out_resize or c["out_resize"])
        for k, v in self.inputs.items():
            if self.node.fm_input(h, k, v):
                self.rec.fault("read_only_input")
        return h

    def canonical(self, h, max_resumes):
        """E0: run, then resume while not done. Returns (err, nresumes)."""
        n = self.node
        err, _ = n.fm_do(h, n.FM_RUN)
        self.rec.ticks += 1
        resumes = 0
        while err == 0 and not (n.fm_flags(h) & 2):
            if resumes > max_resumes:
                raise Violation("liveness", "resume_without_progress",
                                {"resumes": resumes, "state": n.fm_state(h)})
            err, _ = n.fm_do(h, n.FM_RESUME)
            self.rec.ticks += 1
            resumes += 1
        return err, resumes

    def scheduled(self, h, sched, max_actions):
        n = self.node
        n.fm_do(h, n.FM_BEGIN)
        err = 0
        actions = 0
        i = 0
        while err == 0 and not (n.fm_flags(h) & 2):
            a = sched[i % len(sched)]
            i += 1
            if a[0] == "step":
                err, done = n.fm_do(h, n.FM_STEP, a[1])
                actions += done
                self.rec.ticks += done
            else:
                err, _ = n.fm_do(h, n.FM_RESUME)
                actions += 1
                self.rec.ticks += 1
            if actions > max_actions:
                raise Violation("liveness", "stepping_makes_no_progress",
                                {"actions": actions, "schedule": sched, "state": n.fm_state(h)})
        return err


def calls_at_pause(node, case, rec, opts, drv, srcb, src, prog, cap_calls, pauses):
    """run/resume with call(word) issued at chosen pauses, on the machine and on the model: a called word works on the
    shared stack and leaves the paused program where it was (the next resume continues it); a word that pauses itself is
    finished by the following resumes before the program goes on."""
    m2 = fm.Model(prog, case["width"], case["stack_max"], case["rec_max"], budget=opts.get("forth_budget", 20000))
    for k, v in drv.inputs.items():
        m2.set_input(k, v)
    h2 = drv.machine(srcb)

    def compare(stage, merr, err2):
        mv = view(fm.ERRCODE[merr], m2.state())
        vr = view(err2, node.fm_state(h2))
        if not same_view(mv, vr):
            raise Violation("model", "state_with_calls_at_pauses_differs",
                            {"source": src, "calls_at_pause": cap_calls, "stage": stage, "diff(model,real)": diff_view(mv, vr)})
    actions = [["run"]]      # what was done to h2, for the stepped twin below
    last_call = None
    finished = False
    try:
        merr = m2.run()
        err2, _ = node.fm_do(h2, node.FM_RUN)
        k = 0
        while True:
            if merr == "none" and not m2.done and err2 == 0 and (node.fm_flags(h2) & 2):
                # a pause that is the last word of the program: the machine is done when it stops there, the
                # model's coroutine ends with the next resume without executing anything
                n0 = m2.ninstr
                merr = m2.resume()
                if m2.ninstr != n0:
                    raise Violation("model", "state_with_calls_at_pauses_differs",
                                    {"source": src, "calls_at_pause": cap_calls, "stage": "pause %d" % k,
                                     "diff(model,real)": {"done": [False, True]}})
            compare("pause %d" % k, merr, err2)
            if merr != "none" or m2.done:
                finished = True
                break
            k += 1
            for kk, word in cap_calls:
                if kk != k or merr != "none":
                    continue
                base = len(m2.gens)
                merr = m2.call(word)
                inner = 0
                while merr == "none" and len(m2.gens) > base:
                    inner += 1
                    merr = m2.resume()
                # (the machine has no accessor that tells "the called word has finished" from "the called word has
                # paused": current_recursion_depth() is relative to the innermost call. The caller knows its word; here
                # the model says how many resumes the word needs.)
                err2 = node.fm_call(h2, word)
                actions.append(["call", word])
                last_call = len(actions)
                for _ in range(inner):
                    if err2 != 0:
                        break
                    err2, _ = node.fm_do(h2, node.FM_RESUME)
                    actions.append(["resume"])
                rec.ticks += 1
                rec.ev("call_at_pause", k, word, err2)
                rec.probe("calls_at_pauses_compared")
                compare("after call of %s at pause %d" % (word, k), merr, err2)
            if merr != "none":
                break
            if k > pauses + 8 * len(cap_calls) + 8:
                break       # a called word changed the stack the program loops on: bounded, no verdict beyond here
            merr = m2.resume()
            err2, _ = node.fm_do(h2, node.FM_RESUME)
            actions.append(["resume"])
        if finished and last_call is not None:
            # the same history up to and including the last call, then the rest - the called word if it paused, and the
            # program it interrupted - under a seeded step/resume schedule instead of resumes only: same final state
            sched = (case.get("schedules") or [[["step", 1]]])[0]
            if not any(a[0] == "step" for a in sched):
                sched = [["step", 1]] + list(sched)
            v2 = view(err2, node.fm_state(h2))
            h3 = drv.machine(srcb)
            try:
                err3 = 0
                for a in actions[:last_call]:
                    if a[0] == "run":
                        err3, _ = node.fm_do(h3, node.FM_RUN)
                    elif a[0] == "resume":
                        err3, _ = node.fm_do(h3, node.FM_RESUME)
                    else:
                        err3 = node.fm_call(h3, a[1])
                done_actions = 0
                i = 0
                cap = 20 * opts.get("forth_budget", 20000)
                while err3 == 0 and not (node.fm_flags(h3) & 2):
                    a = sched[i % len(sched)]
                    i += 1
                    if a[0] == "step":
                        err3, done = node.fm_do(h3, node.FM_STEP, a[1])
                        done_actions += max(done, 1)
                    else:
                        err3, _ = node.fm_do(h3, node.FM_RESUME)
                        done_actions += 1
                    if done_actions > cap:
                        raise Violation("liveness", "stepping_makes_no_progress",
                                        {"source": src, "calls_at_pause": cap_calls, "schedule": sched,
                                         "state": node.fm_state(h3)})
                v3 = view(err3, node.fm_state(h3))
                if not same_view(v2, v3):
                    raise Violation("schedule_independence", "stepped_after_call_differs",
                                    {"source": src, "calls_at_pause": cap_calls, "schedule": sched,
                                     "history": actions[:last_call], "diff(resumed,stepped)": diff_view(v2, v3)})
                rec.probe("stepped_after_call_compared")
            finally:
                node.drop(h3)
    except fm.Budget:
        rec.probe("calls_at_pauses_budget")
    except fm.Unspecified:
        rec.probe("unspecified_behaviour")
    except NodeError as e:
        raise Violation("robustness", "exception_from_call", {"error": [e.cls, e.msg[:300]]})
    finally:
        node.drop(h2)


def execute(node, case, rec, opts):
    prog = case["program"]
    src = fm.render(prog)
    if case.get("comments"):
        src = {1: '( a note: strings are written with ." text" or s" text" )\n',
               2: '\\ prints with ." later\n',
               3: '( outer ( inner s" ) still a comment ." )\n'}[case["comments"]] + src
    if case.get("newlines"):
        import re
        src = re.sub(r"^(variable|input|output) ", r"\1\n", src, flags=re.M)
        src = re.sub(r"\b(x\d+) (len|pos|end|seek|skip)\b", r"\1\n\2", src)
        src = re.sub(r"\b(v\d+|c\d+) (!|\+!|@)(?=\s)", r"\1\n\2", src)
    if case.get("mutate_source"):
        return execute_illformed(node, case, rec, apply_source_mutation(src, case["mutate_source"]))
    srcb = src.encode("latin-1")
    drv = Driver(node, case, rec)

    # ---------------------------------------------------------------- the model goes first (decides termination)
    model = fm.Model(prog, case["width"], case["stack_max"], case["rec_max"], budget=opts.get("forth_budget", 20000))
    for k, v in drv.inputs.items():
        model.set_input(k, v)
    unspecified = None
    pauses = 0
    try:
        merr = model.run()
        while merr == "none" and not model.done:
            pauses += 1
            merr = model.resume()
    except fm.Budget:
        raise Discard("model: instruction budget exceeded")
    except fm.Unspecified as u:
        unspecified = str(u)
        merr = None
    ninstr = model.ninstr
    rec.ticks += ninstr
    mview = None if unspecified else view(fm.ERRCODE[merr], model.state())
    rec.ev("model", merr, unspecified, pauses, mview)
    if unspecified:
        rec.probe("unspecified_behaviour")
        import re
        if re.search(r"\by\d+\s+dup\b", src):
            # past the unspecified operation the values on the stack are anybody's guess, and '<n> <output> dup' with
            # such a value is a legal request for gigabytes (soak seeds 611, 614: timeouts reported as hangs)
            raise Discard("unspecified behaviour ahead of an output dup: nothing bounds the output size")
    if pauses:
        rec.probe("program_paused")

    # ---------------------------------------------------------------- compile + canonical execution E0
    try:
        h0 = drv.machine(srcb)
    except NodeError as e:
        raise Violation("compile", "valid_program_refused", {"source": src, "error": [e.cls, e.msg[:300]]})
    budget_actions = 12 * ninstr + 400
    try:
        if unspecified:
            # the model stopped at an undefined operation, so nothing bounds the real execution: drive it by a
            # bounded number of single steps and give no verdict when that is not enough
            cap = opts.get("forth_unspecified_cap", 60000)
            node.fm_do(h0, node.FM_BEGIN)
            err0, done0 = node.fm_do(h0, node.FM_STEP, cap)
            rec.ticks += done0
            resumes0 = 0
            if err0 == 0 and not (node.fm_flags(h0) & 2):
                raise Discard("unspecified behaviour and no termination within the step cap")
            budget_actions = 4 * cap
        else:
            err0, resumes0 = drv.canonical(h0, pauses + 3)
    except NodeError as e:
        raise Violation("robustness", "exception_from_run", {"error": [e.cls, e.msg[:300]]})
    st0 = node.fm_state(h0)
    v0 = view(err0, st0)
    rec.ev("E0", v0, resumes0)
    rec.state(("err", err0))
    if not st0["inputs_intact"]:
        raise Violation("purity", "input_bytes_modified", {"state": st0})
    cfg = case_config_class(case)
    for kind in cfg:
        rec.fault(kind)
    if err0:
        rec.fault("runtime_error:" + fm.ERR[err0])

    # ---------------------------------------------------------------- C: reference model
    if mview is not None:
        if not same_view(mview, v0):
            if mview["err"] != v0["err"]:
                cls = "error_status_differs"
            elif mview["err"] != 0:
                cls = "state_after_error_differs"
            else:
                cls = "final_state_differs"
            raise Violation("model", cls, {"source": src, "diff(model,real)": diff_view(mview, v0)})

    # ---------------------------------------------------------------- C2: user words called while the program is paused
    cap_calls = [c for c in case.get("calls_at_pause") or [] if c[1] in model.defs]
    if cap_calls and mview is not None and pauses > 0:
        calls_at_pause(node, case, rec, opts, drv, srcb, src, prog, cap_calls, pauses)

    # ---------------------------------------------------------------- A: schedule independence
    for si, sched in enumerate(case["schedules"]):
        hs = drv.machine(srcb)
        try:
            errs = drv.scheduled(hs, sched, budget_actions)
        except NodeError as e:
            raise Violation("robustness", "exception_from_step", {"error": [e.cls, e.msg[:300]]})
        vs = view(errs, node.fm_state(hs))
        rec.ev("sched", si, sched, vs)
        if not same_view(v0, vs):
            raise Violation("schedule_independence", "stepped_state_differs",
                            {"source": src, "schedule": sched, "diff(run,stepped)": diff_view(v0, vs)})
        node.drop(hs)
        rec.probe("schedules_compared")

    # ---------------------------------------------------------------- A2: every segmentation of a short execution
    if case.get("sweep"):
        hs = drv.machine(srcb)
        total = None
        try:
            node.fm_do(hs, node.FM_BEGIN)
            total = 0
            err = 0
            while err == 0 and not (node.fm_flags(hs) & 2) and total <= opts.get("forth_sweep_max", 10):
                err, done = node.fm_do(hs, node.FM_STEP, 1)
                total += max(done, 1)
        except NodeError:
            total = None
        node.drop(hs)
        if total is not None and 2 <= total <= opts.get("forth_sweep_max", 10):
            # all 2**(total-1) ways to cut `total` single steps into bursts, each also with a final 'resume'
            for mask in range(1 << (total - 1)):
                parts = []
                run_len = 1
                for bit in range(total - 1):
                    if mask >> bit & 1:
                        parts.append(run_len)
                        run_len = 1
                    else:
                        run_len += 1
                parts.append(run_len)
                for tail_resume in (False, True):
                    sched = [["step", k] for k in parts]
                    if tail_resume:
                        sched[-1] = ["resume"]
                    hs = drv.machine(srcb)
                    try:
                        errs = drv.scheduled(hs, sched, budget_actions)
                    except NodeError as e:
                        raise Violation("robustness", "exception_from_step", {"error": [e.cls, e.msg[:300]]})
                    vs = view(errs, node.fm_state(hs))
                    if not same_view(v0, vs):
                        raise Violation("schedule_independence", "stepped_state_differs",
                                        {"source": src, "schedule": sched, "sweep": True, "diff(run,stepped)": diff_view(v0, vs)})
                    node.drop(hs)
            rec.probe("exhaustive_segmentation_sweeps")
            rec.state(("sweep", total))

    # ---------------------------------------------------------------- B: configuration independence
    hb = drv.machine(srcb, out_init=case["alt_growth"][0], out_resize=case["alt_growth"][1])
    errb, _ = drv.canonical(hb, budget_actions)
    vb = view(errb, node.fm_state(hb))
    rec.ev("growth", case["alt_growth"], vb)
    if not same_view(v0, vb):
        raise Violation("config_independence", "growth_setting_changes_result",
                        {"source": src, "diff": diff_view(v0, vb)})
    node.drop(hb)
    if fm.ERR[err0] not in ("stack_overflow", "recursion_depth_exceeded"):
        hb = drv.machine(srcb, stack_max=case["stack_max"] * 2 + 8, rec_max=case["rec_max"] * 2 + 8)
        errb, _ = drv.canonical(hb, budget_actions)
        vb = view(errb, node.fm_state(hb))
        rec.ev("limits", vb)
        if not same_view(v0, vb):
            raise Violation("config_independence", "larger_limits_change_result",
                            {"source": src, "diff": diff_view(v0, vb)})
        node.drop(hb)

    # ---------------------------------------------------------------- D: decompile
    dec = node.fm_decompiled(h0)
    try:
        hd = drv.machine(dec)
    except NodeError as e:
        raise Violation("decompile", "decompiled_does_not_compile",
                        {"source": src, "decompiled": dec.decode("latin-1"), "error": [e.cls, e.msg[:300]]})
    dec2 = node.fm_decompiled(hd)
    if dec2 != dec:
        raise Violation("decompile", "not_a_fixpoint", {"source": src, "decompiled": dec.decode("latin-1"),
                                                        "again": dec2.decode("latin-1")})
    errd, _ = drv.canonical(hd, budget_actions)
    vd = view(errd, node.fm_state(hd))
    rec.ev("decompiled", vd)
    if not same_view(v0, vd):
        raise Violation("decompile", "decompiled_behaves_differently",
                        {"source": src, "decompiled": dec.decode("latin-1"), "diff": diff_view(v0, vd)})
    node.drop(hd)

    # ---------------------------------------------------------------- F: re-use of a machine (begin resets all)
    if case.get("rerun"):
        errr, _ = drv.canonical(h0, budget_actions)
        vr = view(errr, node.fm_state(h0))
        rec.ev("rerun", vr)
        if not same_view(v0, vr):
            raise Violation("determinism", "second_run_differs", {"source": src, "diff": diff_view(v0, vr)})

    # ---------------------------------------------------------------- G: a machine stopped by a fault stays where it is
    if err0 != 0:
        # (further step()/resume() calls report the fault again and execute nothing; begin() starts over)
        try:
            for _ in range(3):
                node.fm_do(h0, node.FM_STEP, 1)
            node.fm_do(h0, node.FM_RESUME)
            node.fm_do(h0, node.FM_STEP, 2)
        except NodeError as e:
            raise Violation("robustness", "exception_from_step", {"error": [e.cls, e.msg[:300]]})
        stg = node.fm_state(h0)
        moved = {k: [st0[k], stg[k]] for k in ("stack", "vars", "outs", "pos") if st0[k] != stg[k]}
        if moved:
            raise Violation("schedule_independence", "execution_continued_after_a_fault",
                            {"source": src, "error": fm.ERR[err0], "changed": moved})
        rec.probe("faulted_machine_stays_put")

    # ---------------------------------------------------------------- calls at quiescent points (model only)
    if case["calls"] and mview is not None and err0 == 0:
        for word in case["calls"]:
            try:
                merr = model.call(word)
                mp = 0
                while merr == "none" and len(model.gens) > 0:
                    mp += 1
                    merr = model.resume()
            except fm.Budget:
                break
            except fm.Unspecified:
                rec.probe("unspecified_behaviour")
                break
            try:
                errc = node.fm_call(h0, word)
                rc = 0
                while errc == 0 and not (node.fm_flags(h0) & 2):
                    if rc > mp + 3:
                        raise Violation("liveness", "resume_without_progress_after_call", {"word": word})
                    errc, _ = node.fm_do(h0, node.FM_RESUME)
                    rc += 1
            except NodeError as e:
                raise Violation("robustness", "exception_from_call", {"error": [e.cls, e.msg[:300]]})
            rec.ticks += 1
            vc = view(errc, node.fm_state(h0))
            mv = view(fm.ERRCODE[merr], model.state())
            rec.ev("call", word, vc)
            rec.probe("calls_compared")
            if not same_view(mv, vc):
                raise Violation("model", "state_after_call_differs",
                                {"source": src, "word": word, "diff(model,real)": diff_view(mv, vc)})
            if errc:
                break

    # ---------------------------------------------------------------- E: API misuse must not crash
    if case.get("misuse"):
        hm = drv.machine(srcb)
        for what in (node.FM_STEP, node.FM_RESUME):
            try:
                node.fm_do(hm, what, 1)
            except NodeError as e:
                if e.cls == "nonstd":
                    raise Violation("robustness", "nonstd_exception", {"error": [e.cls, e.msg[:300]]})
        try:
            node.fm_call(hm, "nosuchword")
        except NodeError as e:
            if e.cls == "nonstd":
                raise Violation("robustness", "nonstd_exception", {"error": [e.cls, e.msg[:300]]})
        node.fm_do(hm, node.FM_BEGIN)
        node.fm_do(hm, node.FM_STEP, 3)
        node.fm_do(hm, node.FM_RESET)
        node.fm_do(hm, node.FM_STEP, 1)
        node.fm_state(hm)
        node.fm_do(h0, node.FM_STEP, 2)
        node.fm_do(h0, node.FM_RESUME)
        rec.fault("api_misuse")
        rec.ev("misuse", node.fm_state(hm))


def execute_illformed(node, case, rec, src):
    """Compile-error half: the text may or may not compile; it must never crash, and when it compiles a bounded
    stepped execution must stay an ordinary execution."""
    rec.fault("illformed_source")
    drv = Driver(node, case, rec)
    try:
        h = drv.machine(src.encode("latin-1"))
    except NodeError as e:
        rec.ev("compile_error", e.cls)
        rec.probe("compile_error_reported")
        if (case.get("mutate_source") or [[None]])[0][0] in MUST_REFUSE:
            rec.probe("not_a_word_refused")
        if e.cls == "nonstd":
            raise Violation("robustness", "nonstd_exception", {"source": src})
        return
    ms = case.get("mutate_source") or []
    if ms and ms[0][0] in MUST_REFUSE and ms[0][2] in src.split():
        raise Violation("compile", "text_that_is_not_a_program_accepted",
                        {"source": src, "appended": ms[0][2], "decompiled": node.fm_decompiled(h).decode("latin-1")})
    rec.probe("mutated_source_compiled")
    dec = node.fm_decompiled(h)
    try:
        hd = drv.machine(dec)
    except NodeError as e:
        raise Violation("decompile", "decompiled_does_not_compile",
                        {"source": src, "decompiled": dec.decode("latin-1"), "error": [e.cls, e.msg[:300]]})
    if node.fm_decompiled(hd) != dec:
        raise Violation("decompile", "not_a_fixpoint", {"source": src, "decompiled": dec.decode("latin-1")})
    try:
        node.fm_do(h, node.FM_BEGIN)
    except NodeError as e:
        # e.g. the mutation turned a name into an input declaration that nobody supplies
        if e.cls == "nonstd":
            raise Violation("robustness", "nonstd_exception", {"source": src})
        rec.ev("begin_refused", e.cls)
        return
    import re
    if re.search(r"\by\d+\s+dup\b", src):
        # no model bounds this execution, and '<huge number> <output> dup' is a legal request for gigabytes: the
        # compile/decompile half above is all that is checked for such a text
        rec.probe("mutated_source_not_stepped_output_dup")
        return
    err, done = node.fm_do(h, node.FM_STEP, 3000)
    rec.ticks += done
    rec.ev("stepped", err, done, view(err, node.fm_state(h)))


def case_config_class(case):
    out = []
    if case["stack_max"] <= 8:
        out.append("tiny_stack")
    if case["rec_max"] <= 6:
        out.append("tiny_recursion")
    if case["out_init"] <= 3:
        out.append("growth_every_write")
    for x, hx in case["inputs"].items():
        if len(hx) // 2 < 8:
            out.append("short_input")
            break
    return out


# ================================================================================================ measures
def opclasses(body, out):
    for n in body:
        k = n[0]
        if k == "w":
            out.append(n[1])
        elif k == "read":
            out.append("read:" + n[2] + (":stack" if n[3] == "stack" else ":out"))
        elif k in ("var", "in", "out"):
            out.append(k + ":" + n[2])
        else:
            out.append(k)
        if k in ("if", "do", "+do", "until", "again"):
            out.append("{"); opclasses(n[1], out); out.append("}")
        elif k in ("ifelse", "while"):
            out.append("{"); opclasses(n[1], out); out.append("|"); opclasses(n[2], out); out.append("}")


def signature(case):
    ops = []
    for _, b in case["program"]["defs"]:
        opclasses(b, ops)
        ops.append(";")
    opclasses(case["program"]["main"], ops)

    def kclass(k):
        return 1 if k == 1 else (2 if k <= 3 else 3)
    scheds = [[(a[0], kclass(a[1])) if a[0] == "step" else (a[0],) for a in s] for s in case["schedules"]]
    nontrivial = len(ops) >= 5
    return [stable_hash([ops, scheds, case["width"], case_config_class(case), bool(case.get("mutate_source"))]),
            nontrivial]


# ================================================================================================ shrinking
def _bodies(prog):
    """yield (container_list, index) for every node position, depth first."""
    def walk(body):
        for i in range(len(body)):
            yield body, i
            n = body[i]
            if n[0] in ("if", "do", "+do", "until", "again"):
                yield from walk(n[1])
            elif n[0] in ("ifelse", "while"):
                yield from walk(n[1])
                yield from walk(n[2])
    for _, b in prog["defs"]:
        yield from walk(b)
    yield from walk(prog["main"])


def _uses(prog, kind, name):
    for body, i in _bodies(prog):
        n = body[i]
        if kind == "def" and n[0] == "call" and n[1] == name:
            return True
        if kind == "var" and n[0] == "var" and n[1] == name:
            return True
        if kind == "in" and n[0] in ("in", "read") and n[1] == name:
            return True
        if kind == "out" and ((n[0] == "out" and n[1] == name) or (n[0] == "read" and n[3] == name)):
            return True
    return False


def valid_program(prog):
    """the lexical rules the compiler enforces (so that shrinking never leaves the language)."""
    names = set(prog["vars"]) | set(prog["inputs"]) | {o[0] for o in prog["outputs"]}
    if len(names) != len(prog["vars"]) + len(prog["inputs"]) + len(prog["outputs"]):
        return False
    vars_, ins, outs = set(prog["vars"]), set(prog["inputs"]), {o[0] for o in prog["outputs"]}
    defined = []

    def walk(body, indef, do):
        for n in body:
            k = n[0]
            if k == "w":
                if n[1] == "i" and do < 1 or n[1] == "j" and do < 2 or n[1] == "k" and do < 3:
                    return False
            elif k == "recurse" and indef is None:
                return False
            elif k == "call" and n[1] not in defined:
                return False
            elif k == "var" and n[1] not in vars_:
                return False
            elif k == "in" and n[1] not in ins:
                return False
            elif k == "out" and n[1] not in outs:
                return False
            elif k == "read" and (n[1] not in ins or (n[3] != "stack" and n[3] not in outs)):
                return False
            if k in ("do", "+do"):
                if not walk(n[1], indef, do + 1):
                    return False
            elif k in ("if", "until", "again"):
                if not walk(n[1], indef, do):
                    return False
            elif k in ("ifelse", "while"):
                if not (walk(n[1], indef, do) and walk(n[2], indef, do)):
                    return False
        return True
    for name, body in prog["defs"]:
        if name in names or name in defined:
            return False
        defined.append(name)
        if not walk(body, name, 0):
            return False
    return walk(prog["main"], None, 0)


def shrink_candidates(case):
    for d in _shrink_candidates(case):
        if d is not None and valid_program(d["program"]) and all(w in [x[0] for x in d["program"]["defs"]] for w in d["calls"]):
            yield d


def _shrink_candidates(case):
    """yield simpler cases, biggest cuts first."""
    c = case
    # whole-feature removals
    for key, val in (("calls", []), ("rerun", False), ("misuse", False)):
        if c.get(key):
            d = copy.deepcopy(c); d[key] = val; yield d
    if len(c["schedules"]) > 1:
        for i in range(len(c["schedules"])):
            d = copy.deepcopy(c); d["schedules"] = [c["schedules"][i]]; yield d
    if c["schedules"]:
        d = copy.deepcopy(c); d["schedules"] = []; yield d
    for i, s in enumerate(c["schedules"]):
        if s != [["step", 1]]:
            d = copy.deepcopy(c); d["schedules"][i] = [["step", 1]]; yield d
        if len(s) > 1:
            for j in range(len(s)):
                d = copy.deepcopy(c); del d["schedules"][i][j]; yield d
    # program structure
    prog = c["program"]
    for di in range(len(prog["defs"])):
        name = prog["defs"][di][0]
        if not _uses(prog, "def", name) and name not in c["calls"]:
            d = copy.deepcopy(c); del d["program"]["defs"][di]; yield d
    positions = list(_bodies(prog))
    # delete contiguous chunks of a body, then single nodes, then unwrap control nodes
    seen = set()
    for body, i in positions:
        if id(body) in seen:
            continue
        seen.add(id(body))
        n = len(body)
        size = n
        while size >= 2:
            for start in range(0, n, size):
                d, path_ok = _copy_with(c, body, lambda b: b.__delitem__(slice(start, start + size)))
                if path_ok:
                    yield d
            size //= 2
    for body, i in positions:
        d, ok = _copy_with(c, body, lambda b, i=i: b.__delitem__(i))
        if ok:
            yield d
    for body, i in positions:
        n = body[i]
        if n[0] in ("if", "do", "+do", "until", "again"):
            d, ok = _copy_with(c, body, lambda b, i=i: b.__setitem__(slice(i, i + 1), copy.deepcopy(b[i][1])))
            if ok:
                yield d
        elif n[0] in ("ifelse", "while"):
            for which in (1, 2):
                d, ok = _copy_with(c, body, lambda b, i=i, which=which: b.__setitem__(slice(i, i + 1), copy.deepcopy(b[i][which])))
                if ok:
                    yield d
    # declarations
    for kind, key in (("var", "vars"), ("in", "inputs")):
        for idx, name in enumerate(prog[key]):
            if not _uses(prog, kind, name):
                d = copy.deepcopy(c); del d["program"][key][idx]
                if kind == "in":
                    d["inputs"].pop(name, None)
                yield d
    for idx, (name, _) in enumerate(prog["outputs"]):
        if not _uses(prog, "out", name):
            d = copy.deepcopy(c); del d["program"]["outputs"][idx]; yield d
    # config to defaults
    for key, val in (("stack_max", 1024), ("rec_max", 1024), ("out_init", 1024), ("out_resize", 1.5)):
        if c[key] != val:
            d = copy.deepcopy(c); d[key] = val; yield d
    # inputs shorter / zeroed
    for name, hx in c["inputs"].items():
        b = bytes.fromhex(hx)
        for cut in (0, len(b) // 2, len(b) - 1):
            if 0 <= cut < len(b):
                d = copy.deepcopy(c); d["inputs"][name] = b[:cut].hex(); yield d
        if any(b):
            d = copy.deepcopy(c); d["inputs"][name] = bytes(len(b)).hex(); yield d
    # literals towards 0 / 1
    for body, i in positions:
        n = body[i]
        if n[0] == "lit" and n[1] not in (0, 1):
            for v in (0, 1, n[1] // 2):
                d, ok = _copy_with(c, body, lambda b, i=i, v=v: b.__setitem__(i, ["lit", v]))
                if ok:
                    yield d
        if n[0] == "read" and n[3] != "stack":
            d, ok = _copy_with(c, body, lambda b, i=i: b.__setitem__(i, b[i][:3] + ["stack"]))
            if ok:
                yield d
    # output dtypes to int32... keeps the case readable
    if c.get("mutate_source"):
        for j in range(len(c["mutate_source"])):
            d = copy.deepcopy(c); del d["mutate_source"][j]
            if not d["mutate_source"]:
                d["mutate_source"] = None
            yield d


def _copy_with(case, body, fn):
    """deep-copies case and applies fn to the copy of `body` (located by identity path)."""
    path = _find_path(case["program"], body)
    if path is None:
        return None, False
    d = copy.deepcopy(case)
    tgt = d["program"]
    for p in path:
        tgt = tgt[p]
    try:
        fn(tgt)
    except (IndexError, KeyError):
        return None, False
    return d, True


def _find_path(prog, target):
    def walk(body, path):
        if body is target:
            return path
        for i, n in enumerate(body):
            if n[0] in ("if", "do", "+do", "until", "again"):
                r = walk(n[1], path + [i, 1])
                if r is not None:
                    return r
            elif n[0] in ("ifelse", "while"):
                for w in (1, 2):
                    r = walk(n[w], path + [i, w])
                    if r is not None:
                        return r
        return None
    for di, (_, b) in enumerate(prog["defs"]):
        r = walk(b, ["defs", di, 1])
        if r is not None:
            return r
    return walk(prog["main"], ["main"])


def describe(case):
    src = fm.render(case["program"])
    if case.get("mutate_source"):
        src = apply_source_mutation(src, case["mutate_source"])
    return {"source": src, "width": case["width"], "limits": [case["stack_max"], case["rec_max"]],
            "growth": [case["out_init"], case["out_resize"]], "inputs": case["inputs"],
            "schedules": case["schedules"], "calls": case["calls"]}


# ================================================================================================ check metadata
def tier_opts(tier):
    if tier == "thorough":
        return {"runs": 400000, "determinism_sample": 1024, "perturb_sample": 2000, "asan_runs": 60000,
                "forth_max_words": 120, "forth_schedules": 4, "run_timeout": 30.0, "shrink_per_class": 3,
                "mutants": True}
    return {"asan_runs": 6000, "runs": 40000, "determinism_sample": 64, "perturb_sample": 300, "forth_max_words": 40,
            "forth_schedules": 3, "run_timeout": 6.0, "shrink_per_class": 2}


ASSUMPTIONS = [
    "the reference model (simfw/models/forth_model.py) is written from the property text and standard Forth; "
    "points marked CALIBRATED mirror the unchanged tree (do-loop test-before-body, rshift arithmetic, state after "
    "halt, divisor popped before division_by_zero, a 'pause' that is the last word of its segment leaves the segment "
    "before it suspends: the program or a called word is done when it stops there and a loop body steps its index at "
    "the pause)",
    "calls at pauses: the machine cannot tell a called word that has finished from one that has paused; the number of "
    "resumes a called word needs is taken from the model",
    "programs whose model execution reaches behaviour that is not defined (shift count outside the cell width, "
    "float to integer out of range) are checked for self-consistency and "
    "robustness only",
    "an input for which the compiled machine answers input_must_be_writable(name) == false is handed over in read-only "
    "pages (the Python layer requests the buffer with that flag); the others may be written and must be restored",
    "only the C++ ForthMachine32/64 API is exercised; the Python wrapper (src/awkward/forth.py, pybind11) cannot "
    "be built in this sandbox",
    "g++ 12 -O1, glibc; signed overflow is assumed to wrap as it does on this target",
]
COMPONENTS = {"real": ["src/libawkward/forth/ForthMachine.cpp", "ForthInputBuffer.cpp", "ForthOutputBuffer.cpp",
                       "NumpyArray (output views)"],
              "stub": ["rapidjson (framework stub; not on this property's path)"],
              "absent": ["pybind11 layer", "Python layer (ak.forth)"]}
RULE = ("one run = seeded grammar-based program (AST, <= forth_max_words words) + input bytes + machine "
        "configuration + several step/resume schedules + growth settings + call sequence; the reference model "
        "decides termination first (20000-instruction budget, else discarded). distinct = hash of (opcode-class "
        "sequence of the program, schedule shape with step-burst classes, machine width, configuration class); "
        "non-trivial = at least 5 program words or at least one fault kind fired")
REQUIRED_PROBES = {"quick": ["program_paused", "schedules_compared", "calls_compared", "compile_error_reported",
                             "exhaustive_segmentation_sweeps", "calls_at_pauses_compared", "stepped_after_call_compared", "not_a_word_refused",
                             "faulted_machine_stays_put"],
                   "thorough": ["program_paused", "schedules_compared", "calls_compared", "compile_error_reported",
                                "exhaustive_segmentation_sweeps",
                                "mutated_source_compiled"]}


def match_predicate(where, case, violation):
    """predicates over the minimised case for known_findings.json (closed vocabulary)."""
    if not where:
        return True
    src = fm.render(case["program"])
    kind = where.get("kind")
    if kind == "program_has_read":
        import re
        return re.search(where["regex"], src) is not None
    if kind == "source_regex":
        import re
        return re.search(where["regex"], src) is not None
    return False
