"""C12 — the array pool: purity, lifetime and memory-safety invariants along operation histories (DESIGN.md 9)."""
from __future__ import annotations

import copy

from ..core import Discard, Violation, stable_hash
from ..models import layout_gen as lg
from ..models import ops as O
from ..models import value_model as vm
from ..node import NodeError

PROP = "C12"
ORDINARY = ("invalid_argument", "runtime_error", "out_of_range", "std", "bad_alloc", "walk")
TEXTS = {"form": 0, "type": 1, "tostring": 2, "validity": 3, "tojson": 5}


# ================================================================================================ generator
def spec_info(spec):
    info = {"length": lg.spec_len(spec), "depth": lg.depth_of(spec), "keys": lg.keys_of(spec), "top": spec["k"]}
    try:
        inner = [len(x) for x in lg.value_of(spec) if isinstance(x, list)]
    except Exception:
        inner = []
    if inner:
        info["inner"] = max(inner)
    return info


def generate(rng, opts):
    r = rng
    nroots = r.choice([1, 1, 2, 2, 3])
    roots = []
    for _ in range(nroots):
        if r.random() < 0.06:
            # long numeric lists dense in NaN/inf: the sizes at which sorting, partitioning and reducing switch
            # algorithm (insertion sort below 17 items, median-of-three partition above)
            dt = r.choice(["float64", "float64", "float32", "int64", "int8"])
            if r.random() < 0.5:
                t, n = ["num", dt], r.randint(17, 48)
            else:
                t, n = ["list", ["num", dt]], r.choice([1, 2, 3])
            roots.append({"type": t, "spec": lg.SpecGen(r, opts, long_lists=True, special_rate=r.choice([0.1, 0.3, 0.6])).array(t, n)})
            continue
        bias = r.choice([None, None, None, None, {"reglist": 6}, {"opt": 4}, {"rec": 4}, {"union": 3}])     # swarm
        t = lg.gen_type(r, 0, dict(opts, _type_bias=bias) if bias else opts)
        n = r.choice([0, 0, 1, 1, 2, 3, 3, 5, 8])
        roots.append({"type": t, "spec": lg.SpecGen(r, opts).array(t, n)})
    if r.random() < 0.08:
        # one root is inconsistent by construction (a hand-built or damaged layout): only the validity check, printing
        # and conversion are promised for it, and they must return or raise
        i = r.randrange(nroots)
        bad = lg.make_invalid(r, roots[i]["spec"])
        if bad is not None:
            roots[i] = {"type": roots[i]["type"], "valid_spec": roots[i]["spec"], "spec": bad[0], "invalid": bad[1]}
    enabled = {k: r.random() < 0.7 for k in O.KINDS}
    infos = [spec_info(x.get("valid_spec", x["spec"])) for x in roots]
    events = []
    nops = r.randint(3, opts.get("pool_max_ops", 14))
    p_drop = r.choice([0.0, 0.05, 0.15])
    p_reread = r.choice([0.1, 0.3])
    p_text = r.choice([0.05, 0.2])
    nslots = nroots
    for _ in range(nops):
        x = r.random()
        if x < p_drop:
            events.append({"e": "drop", "slot": r.randrange(nslots)})
            continue
        if x < p_drop + p_reread:
            events.append({"e": "reread", "slot": r.randrange(nslots)})
            continue
        if x < p_drop + p_reread + p_text:
            events.append({"e": "text", "slot": r.randrange(nslots), "what": r.choice(sorted(TEXTS))})
            continue
        slot = r.randrange(nslots)
        info = infos[slot] if slot < len(infos) else {"length": r.choice([0, 1, 2, 3]), "depth": r.choice([1, 2, 3]),
                                                      "keys": infos[0]["keys"]}
        events.append({"e": "op", "slot": slot, "op": O.gen_op(r, info, nslots, enabled)})
        nslots += 1
    # allocation failures: the k-th allocation inside the operation throws std::bad_alloc (once)
    p_alloc = r.choice([0.0, 0.0, 0.1, 0.3])
    for e in events:
        if e["e"] == "op" and r.random() < p_alloc:
            e["alloc_fail"] = r.choice([0, 0, 1, 2, 3, 4, 6, 9, 14, 22, 40])
    corrupt = None
    if r.random() < opts.get("pool_corrupt_rate", 0.2):
        corrupt = {"root": r.randrange(nroots), "buf": r.randrange(64), "item": r.randrange(64),
                   "value": r.choice([-1, -2, -100, 1, 2, 3, 4, 7, 100, 127, 2**31 - 1, -2**31, 2**62, 255]),
                   "after": r.randrange(len(events) + 1)}
    return {"roots": roots, "events": events, "corrupt": corrupt}


# ================================================================================================ execution
class Slot:
    __slots__ = ("h", "value", "alive", "root", "unreadable", "scalar")

    def __init__(self, h, value, root=None):
        self.h = h
        self.value = value
        self.alive = True
        self.root = root
        self.unreadable = False
        self.scalar = False      # a Record / number / None: a Python scalar, not a layout, for the user


_ADDR = None


def structure_text(node, h):
    """tostring() without the buffer addresses and without NumpyArray data (floats print NaN payloads etc.; values are
    compared through the walker): what is left are the index entries of every node"""
    global _ADDR
    import re
    if _ADDR is None:
        # (addresses, and the serial number every new Identities object draws from a process-wide counter)
        _ADDR = (re.compile(r' at="0x[0-9a-f]+"| ref="\d+"'), re.compile(r'<NumpyArray [^>]*>'))
    try:
        if node.isscalar(h):
            return None
        txt = node.text(h, 2).decode("latin-1")
    except NodeError:
        return None
    if len(txt) > 200000:
        return None
    txt = _ADDR[0].sub("", txt)
    return _ADDR[1].sub("<NumpyArray>", txt)


def first_difference(a, b):
    la, lb = a.split("\n"), b.split("\n")
    for x, y in zip(la, lb):
        if x != y:
            return x.strip()[:300], y.strip()[:300]
    return "(%d lines)" % len(la), "(%d lines)" % len(lb)


def max_list_len(v):
    """the longest list anywhere in a decoded value (the operand size that decides the cost of combinations)"""
    if isinstance(v, (str, bytes)):
        return len(v)          # a string is a list of characters for axis=-1
    if isinstance(v, list):
        return max([len(v)] + [max_list_len(x) for x in v])
    if isinstance(v, tuple) and v and v[0] == "rec":
        return max([0] + [max_list_len(x) for _, x in v[2]])
    if isinstance(v, tuple) and v and v[0] in ("tup",):
        return max([0] + [max_list_len(x) for x in v[1]])
    if isinstance(v, tuple) and v and v[0] == "scalar":
        return max_list_len(v[1])
    return 0


def read_value(node, h):
    raw = node.dump(h)
    if len(raw) > 400000:
        # an operation (combinations, rpad to a large target) blew a small array up: decoding and comparing it in
        # Python would take longer than the per-run timeout allows - outside the explored size bound, no verdict
        raise Discard("result too large for the explored size bound")
    return vm.loads(raw)


def operand_facts(node, h, op):
    """what a known-finding matcher may look at: the operation, the node classes of the operand, its depth range
    and how the axis argument relates to it"""
    import re
    facts = {"op": O.op_class(op)}
    try:
        form = node.text(h, 6).decode("latin-1")
        facts["classes"] = sorted(set(re.findall(r'"class":"([A-Za-z0-9_]+)"', form)))
        mn, mx = node.meta(h, 4).decode().split(",")
        facts["depth"] = [int(mn), int(mx)]
        facts["length"] = node.length(h)
        if "axis" in op:
            ax = op["axis"]
            pos = ax if ax >= 0 else ax + int(mx)
            facts["axis"] = ax
            facts["axis_kind"] = "beyond" if (pos < 0 or pos >= int(mx)) else ("innermost" if pos == int(mx) - 1 else "outer")
    except Exception as e:       # facts are best effort; never let them change a verdict
        facts["facts_error"] = repr(e)[:100]
    return facts


def execute(node, case, rec, opts):
    if "_alloc_seam" not in opts:
        opts["_alloc_seam"] = node.alloc_supported()     # false on the sanitizer node (its own operator new wins)
    slots = []
    realized = []
    for ri, root in enumerate(case["roots"]):
        rz = lg.Realized()
        if root.get("invalid"):
            try:
                h = lg.realize(node, root["spec"], rz)
            except NodeError as x:
                if x.cls not in ORDINARY:
                    raise Violation("robustness", "non_ordinary_exception", {"building": root["invalid"], "error": [x.cls, x.msg[:200]]})
                raise Discard("the constructor refuses this inconsistent layout: %s" % root["invalid"])
            rec.fault("inconsistent_layout:" + root["invalid"])
            for what in (3, 2, 5, 0, 1):
                try:
                    node.text(h, what)
                except NodeError as x:
                    if x.cls not in ORDINARY:
                        raise Violation("robustness", "non_ordinary_exception_on_invalid_array",
                                        {"root": ri, "invalid": root["invalid"], "what": what, "error": [x.cls, x.msg[:200]]})
            rec.probe("check_print_convert_on_inconsistent_layout")
            slots.append(Slot(h, None, root=ri))
            slots[-1].unreadable = True
            realized.append(rz)
            continue
        h = lg.realize(node, root["spec"], rz)
        want = lg.value_of(root["spec"])
        err = node.text(h, 3)
        if err != b"":
            raise Discard("generated root is not a valid layout: %r" % err[:120])
        got = read_value(node, h)
        if not vm.same(got, want):
            raise RuntimeError("walker and layout_gen disagree on a root: %r vs %r" % (vm.to_jsonable(got), vm.to_jsonable(want)))
        slots.append(Slot(h, got, root=ri))
        realized.append(rz)
        rec.state(tuple(sorted(set(c.split(":")[0] for c in lg.node_classes(root["spec"])))))
        if lg.spec_len(root["spec"]) == 0:
            rec.fault("zero_length_root")
    rec.ev("roots", [vm.to_jsonable(s.value) for s in slots])
    corrupt = case.get("corrupt")
    corrupted = False

    def slot_handle(i):
        return slots[i].h

    def check_all_readable(t, why):
        for si, s in enumerate(slots):
            if not s.alive or s.unreadable:
                continue
            try:
                now = read_value(node, s.h)
            except NodeError as e:
                raise Violation("lifetime", "live_result_became_unreadable", {"slot": si, "after": t, "why": why,
                                                                             "error": [e.cls, e.msg[:200]]}, at=t)
            if not vm.same(now, s.value):
                raise Violation("purity", "value_changed_after_later_events",
                                {"slot": si, "after_event": t, "why": why, "was": vm.to_jsonable(s.value),
                                 "now": vm.to_jsonable(now)}, at=t)
            rec.probe("live_value_reread")

    for t, ev in enumerate(case["events"]):
        if corrupt is not None and not corrupted and corrupt["after"] == t:
            corrupted = do_corrupt(node, case, rec, corrupt, slots, realized)
        rec.ticks += 1
        e = ev["e"]
        if e == "drop":
            i = ev["slot"]
            if i < len(slots) and slots[i].alive and sum(1 for s in slots if s.alive) > 1:
                node.drop(slots[i].h)
                slots[i].alive = False
                if slots[i].root is not None:
                    # the driver releases every reference it holds on the root's buffers and intermediate nodes
                    for h in realized[slots[i].root].all:
                        if h != slots[i].h:
                            try:
                                node.drop(h)
                            except Exception:
                                pass
                    for b, _, _, _ in realized[slots[i].root].bufs:
                        try:
                            node.drop(b)
                        except Exception:
                            pass
                    rec.fault("drop_input_with_live_results")
                else:
                    rec.fault("drop_intermediate_result")
                rec.ev(t, "drop", i)
                if not corrupted:
                    check_all_readable(t, "drop of slot %d" % i)
            continue
        if e == "reread":
            if not corrupted:
                check_all_readable(t, "reread")
            continue
        if e == "text":
            i = ev["slot"]
            if i < len(slots) and slots[i].alive:
                try:
                    txt = node.text(slots[i].h, TEXTS[ev["what"]])
                    # (tostring prints buffer addresses, whose number of digits varies from process to process: its length is not logged)
                    rec.ev(t, "text", ev["what"], bool(txt) if corrupted or ev["what"] == "tostring" else txt.decode("latin-1")[:200])
                except NodeError as x:
                    if x.cls not in ORDINARY:
                        raise Violation("robustness", "non_ordinary_exception", {"event": ev, "error": [x.cls, x.msg[:200]]}, at=t)
                    rec.ev(t, "text_raised", ev["what"], x.cls)
                rec.probe("print_or_convert")
            continue
        # ---- an operation
        if corrupted:
            continue      # on arrays that may now be invalid only check/print/convert are promised
        i = ev["slot"]
        if not (i < len(slots) and slots[i].alive) or slots[i].scalar or slots[i].unreadable:
            if i < len(slots) and slots[i].alive and slots[i].unreadable:
                # an invalid array: check / print / convert must still return or raise
                for what in (3, 2, 5):
                    try:
                        node.text(slots[i].h, what)
                    except NodeError as x:
                        if x.cls not in ORDINARY:
                            raise Violation("robustness", "non_ordinary_exception_on_invalid_array",
                                            {"slot": i, "what": what, "error": [x.cls, x.msg[:200]]}, at=t)
                rec.probe("check_print_convert_on_invalid_result")
            slots.append(Slot(0, None))
            slots[-1].alive = False
            continue
        op = ev["op"]
        def unusable(x):
            return x >= len(slots) or not slots[x].alive or slots[x].scalar or slots[x].unreadable
        if ("other" in op and unusable(op["other"])) or any(unusable(x) for x in op.get("more", [])):
            slots.append(Slot(0, None))
            slots[-1].alive = False
            continue
        if op["op"] == "combinations" and max_list_len(slots[i].value) > 12:
            # combinatorial blow-up is legitimate work, not a hang: keep the operand small
            slots.append(Slot(0, None))
            slots[-1].alive = False
            continue
        if op["op"] in ("carry", "range_nowrap"):
            # the "nowrap" entry points have a documented precondition (arguments already in range): honour it
            n = node.length(slots[i].h)
            op = dict(op)
            if op["op"] == "carry":
                op["index"] = [x % n for x in op["index"]] if n > 0 else []
            else:
                lo = min(max(op["start"], 0), n)
                op["start"], op["stop"] = lo, min(max(op["stop"], lo), n)
        tmp = []
        dig = []

        k_fail = ev.get("alloc_fail") if opts.get("_alloc_seam") else None

        def before():
            dig.append(node.digest_bufs())
            if k_fail is not None:
                node.alloc_arm(k_fail)
        try:
            h = O.apply(node, op, slots[i].h, slot_handle, tmp, before)
            raised = None
        except NodeError as x:
            h = None
            raised = x
        fired = False
        if k_fail is not None:
            fired, seen = node.alloc_disarm()
            rec.ev(t, "alloc", k_fail, fired)
        after = node.digest_bufs()
        if dig and dig[0] != after:
            raise Violation("purity", "input_bytes_modified", {"event": ev, "slot": i, "alive_buffers": [dig[0][1], after[1]]}, at=t)
        for x in tmp:
            try:
                node.drop(x)
            except Exception:
                pass
        if fired:
            # the operation met an allocation failure: it may raise (any std::exception), it must not crash, modify its
            # inputs (checked above) or leave the library unusable - the same operation is issued again, unfaulted,
            # and takes the place of the faulted one in the history (recovery once the fault has stopped)
            rec.fault("allocation_failure")
            if raised is not None and raised.cls not in ORDINARY:
                raise Violation("robustness", "non_ordinary_exception", {"event": ev, "error": [raised.cls, raised.msg[:300]]}, at=t)
            first = None
            if raised is None:
                rec.probe("allocation_failure_survived_by_the_operation")
                try:
                    first = ("value", read_value(node, h))
                except NodeError as x:
                    first = ("unreadable", x.cls)
                try:
                    node.drop(h)
                except Exception:
                    pass
            tmp = []
            try:
                h = O.apply(node, op, slots[i].h, slot_handle, tmp)
                raised = None
            except NodeError as x:
                h = None
                raised = x
            for x in tmp:
                try:
                    node.drop(x)
                except Exception:
                    pass
            if first is not None and raised is None:
                try:
                    again = ("value", read_value(node, h))
                except NodeError as x:
                    again = ("unreadable", x.cls)
                if first[0] != again[0] or (first[0] == "value" and not vm.same(first[1], again[1])):
                    raise Violation("robustness", "allocation_failure_gave_another_result",
                                    {"event": ev, "with_failure": first[1] if first[0] != "value" else vm.to_jsonable(first[1]),
                                     "without": again[1] if again[0] != "value" else vm.to_jsonable(again[1])}, at=t)
            rec.probe("recovered_after_allocation_failure")
        if raised is not None:
            if raised.cls not in ORDINARY:
                raise Violation("robustness", "non_ordinary_exception", {"event": ev, "error": [raised.cls, raised.msg[:300]]}, at=t)
            rec.ev(t, O.op_class(op), "raised", raised.cls)
            rec.probe("operation_raised")
            slots.append(Slot(0, None))
            slots[-1].alive = False
            continue
        # I4 inline: the same operation under another allocator fill byte must give the same outcome
        if opts.get("pool_fill_crosscheck", True):
            alt = (rec.perturb ^ 0xFF) or 0x5A
            node.perturb(alt)
            tmp2 = []
            t2 = None
            try:
                h2 = O.apply(node, op, slots[i].h, slot_handle, tmp2)
                try:
                    v2 = ("value", read_value(node, h2))
                    t2 = structure_text(node, h2)
                except NodeError as x:
                    v2 = ("unreadable", x.cls)
                node.drop(h2)
            except NodeError as x:
                v2 = ("raised", x.cls)
            for x in tmp2:
                try:
                    node.drop(x)
                except Exception:
                    pass
            node.perturb(rec.perturb)
            try:
                v1 = ("value", read_value(node, h))
            except NodeError as x:
                v1 = ("unreadable", x.cls)
            same_outcome = v1[0] == v2[0] and (v1[0] != "value" or vm.same(v1[1], v2[1]))
            if same_outcome and v1[0] == "value" and t2 is not None:
                # equal values are not enough: every index entry that belongs to the result (an offset of a zero-length
                # list array is never read by the walker) must be the same under both fill bytes too
                t1 = structure_text(node, h)
                if t1 is not None and t1 != t2:
                    raise Violation("memory", "result_structure_depends_on_allocator_fill",
                                    {"event": ev, "facts": operand_facts(node, slots[i].h, op),
                                     "fill_%02x" % rec.perturb: first_difference(t1, t2)[0],
                                     "fill_%02x" % alt: first_difference(t1, t2)[1]}, at=t)
            rec.probe("fill_byte_crosschecks")
            if not same_outcome:
                raise Violation("memory", "result_depends_on_allocator_fill",
                                {"event": ev, "facts": operand_facts(node, slots[i].h, op),
                                 "operand": vm.to_jsonable(slots[i].value),
                                 "fill_%02x" % rec.perturb: v1[1] if v1[0] != "value" else vm.to_jsonable(v1[1]),
                                 "fill_%02x" % alt: v2[1] if v2[0] != "value" else vm.to_jsonable(v2[1])}, at=t)
        try:
            val = read_value(node, h)
            s = Slot(h, val)
            s.scalar = node.isscalar(h)
            if not s.scalar and node.text(h, 3) != b"":
                # the result is not a valid layout (closure of validity is another property, C11): from here on it
                # is an "arbitrary array" - only validity check, printing and conversion are promised for it
                s.unreadable = True
                rec.probe("result_invalid_layout")
        except NodeError as x:
            if x.cls not in ORDINARY:
                raise Violation("robustness", "non_ordinary_exception", {"event": ev, "error": [x.cls, x.msg[:300]]}, at=t)
            s = Slot(h, None)
            s.unreadable = True      # indexes outside the contents (walker), or a virtual array whose generator refuses
            rec.probe("result_invalid_layout" if x.cls == "walk" else "result_raises_on_read")
        slots.append(s)
        rec.ev(t, O.op_class(op), vm.to_jsonable(s.value))
        rec.probe("operation_returned")
        # the one statement about *what* an operation returns that needs no model: a[:, i] picks item i of every list, and
        # must be refused when some list has no item i (an index exactly one past the end included)
        its = op.get("items") if op["op"] == "slice" else None
        src = slots[i].value
        if its and len(its) == 2 and its[0]["k"] == "range" and its[0]["step"] != 0 and its[1]["k"] == "at" \
                and isinstance(src, list) and all(isinstance(row, list) for row in src):
            rows = src[slice(its[0]["start"], its[0]["stop"], its[0]["step"])]
            j = its[1]["i"]
            if any(not (-len(row) <= j < len(row)) for row in rows):
                raise Violation("errors", "index_beyond_a_list_accepted",
                                {"event": ev, "index": j, "list_lengths": [len(row) for row in rows][:20],
                                 "facts": operand_facts(node, slots[i].h, op)}, at=t)
            rec.probe("at_inside_every_list")
    if corrupt is not None and not corrupted and corrupt["after"] >= len(case["events"]):
        corrupted = do_corrupt(node, case, rec, corrupt, slots, realized)
    if corrupted:
        for si, s in enumerate(slots):
            if not s.alive:
                continue
            for what in (3, 2, 5, 0, 1):
                try:
                    node.text(s.h, what)
                except NodeError as x:
                    if x.cls not in ORDINARY:
                        raise Violation("robustness", "non_ordinary_exception_on_invalid_array",
                                        {"slot": si, "what": what, "error": [x.cls, x.msg[:200]]})
            try:
                node.dump(s.h)
            except NodeError as x:
                if x.cls not in ORDINARY:
                    raise Violation("robustness", "non_ordinary_exception_on_invalid_array", {"slot": si, "error": [x.cls, x.msg[:200]]})
            rec.probe("check_print_convert_on_corrupted")
    else:
        check_all_readable(len(case["events"]), "end of run")


def do_corrupt(node, case, rec, c, slots, realized):
    rz = realized[c["root"]]
    if not rz.bufs or not slots[c["root"]].alive:
        return False
    b, nbytes, role, isz = rz.bufs[c["buf"] % len(rz.bufs)]
    nitems = nbytes // isz
    if nitems == 0:
        return False
    item = c["item"] % nitems
    try:
        node.buf_poke(b, item * isz, isz, c["value"] & ((1 << (8 * isz)) - 1))
    except Exception:
        return False
    rec.fault("index_corruption:" + role)
    rec.ev("corrupt", role, item, c["value"])
    return True


# ================================================================================================ measures
def signature(case):
    classes = [sorted(set(c.split(":")[0] for c in lg.node_classes(r["spec"]))) for r in case["roots"]]
    evs = [(e["e"], O.op_class(e["op"]) if e["e"] == "op" else e.get("what")) for e in case["events"]]
    return [stable_hash([classes, evs, case["corrupt"] is not None]), len(case["events"]) >= 3]


def describe(case):
    return {"roots": [{"type": r["type"], "value": vm.to_jsonable(lg.value_of(r.get("valid_spec", r["spec"]))),
                       "classes": lg.node_classes(r["spec"])} if not r.get("invalid") else
                      {"type": r["type"], "made_inconsistent": r["invalid"], "classes": lg.node_classes(r["spec"]),
                       "value_before": vm.to_jsonable(lg.value_of(r["valid_spec"]))}
                      for r in case["roots"]],
            "events": case["events"], "corrupt": case["corrupt"]}


# ================================================================================================ shrinking
def shrink_candidates(case):
    ev = case["events"]
    n = len(ev)
    size = n // 2
    # dropping an op shifts later slot numbers: renumber references
    while size >= 1:
        for start in range(0, n, size):
            yield remove_events(case, range(start, min(n, start + size)))
        size //= 2
    if case["corrupt"] is not None:
        d = copy.deepcopy(case); d["corrupt"] = None; yield d
    if len(case["roots"]) > 1:
        for i in range(len(case["roots"])):
            d = remove_root(case, i)
            if d is not None:
                yield d
    # simpler roots: fewer elements
    for i, r in enumerate(case["roots"]):
        if r.get("invalid"):
            continue        # (the inconsistency is tied to the shape of this spec)
        for sub in simpler_specs(r["spec"]):
            d = copy.deepcopy(case); d["roots"][i]["spec"] = sub; yield d
    for i, e in enumerate(ev):
        if e["e"] == "op" and e["op"]["op"] == "slice" and len(e["op"]["items"]) > 1:
            for j in range(len(e["op"]["items"])):
                d = copy.deepcopy(case); del d["events"][i]["op"]["items"][j]; yield d


def remove_events(case, idxs):
    idxs = set(idxs)
    nroots = len(case["roots"])
    d = copy.deepcopy(case)
    # slot index of each op result in the old numbering
    old_slot = {}
    s = nroots
    for i, e in enumerate(case["events"]):
        if e["e"] == "op":
            old_slot[i] = s
            s += 1
    removed_slots = {old_slot[i] for i in idxs if i in old_slot}
    remap = {}
    new = 0
    for sl in range(s):
        if sl in removed_slots:
            continue
        remap[sl] = new
        new += 1
    out = []
    for i, e in enumerate(d["events"]):
        if i in idxs:
            continue
        if e["slot"] in removed_slots or e["slot"] not in remap:
            continue
        e["slot"] = remap[e["slot"]]
        if e["e"] == "op":
            op = e["op"]
            if "other" in op:
                op["other"] = remap.get(op["other"], 0)
            if "more" in op:
                op["more"] = [remap.get(x, 0) for x in op["more"]]
        out.append(e)
    d["events"] = out
    if d["corrupt"] is not None:
        d["corrupt"]["after"] = min(d["corrupt"]["after"], len(out))
    return d


def remove_root(case, ri):
    nroots = len(case["roots"])
    for e in case["events"]:
        if e["slot"] == ri:
            return None
        if e["e"] == "op" and (e["op"].get("other") == ri or ri in e["op"].get("more", [])):
            return None
    if case["corrupt"] is not None and case["corrupt"]["root"] == ri:
        return None
    d = copy.deepcopy(case)
    del d["roots"][ri]

    def f(s):
        return s - 1 if s > ri else s
    for e in d["events"]:
        e["slot"] = f(e["slot"])
        if e["e"] == "op":
            if "other" in e["op"]:
                e["op"]["other"] = f(e["op"]["other"])
            if "more" in e["op"]:
                e["op"]["more"] = [f(x) for x in e["op"]["more"]]
    if d["corrupt"] is not None and d["corrupt"]["root"] > ri:
        d["corrupt"]["root"] -= 1
    return d


def simpler_specs(spec):
    """a few structurally smaller versions of a spec (used for roots)"""
    k = spec["k"]
    n = lg.spec_len(spec)
    if k == "numpy" and n > 0:
        d = copy.deepcopy(spec); d["shape"] = [n - 1] + spec["shape"][1:]; yield d
        if n > 1:
            d = copy.deepcopy(spec); d["shape"] = [1] + spec["shape"][1:]; yield d
    elif k != "empty" and n > 0:
        d = copy.deepcopy(spec)
        d["n"] = n - 1
        if k == "regular" and spec["size"] == 0:
            d["zeros_length"] = n - 1
        yield d
        if n > 1:
            d = copy.deepcopy(spec); d["n"] = 1
            if k == "regular" and spec["size"] == 0:
                d["zeros_length"] = 1
            yield d
    if k == "indexed" and not spec["option"]:
        pass
    if "content" in spec:
        for sub in simpler_specs(spec["content"]):
            need = required_content_len(spec)
            if lg.spec_len(sub) >= need:
                d = copy.deepcopy(spec); d["content"] = sub; yield d


def required_content_len(spec):
    k = spec["k"]
    n = spec.get("n", 0)
    if k == "listoffset":
        return max(lg.idx_view(spec["offsets"], n + 1) or [0])
    if k == "list":
        return max(lg.idx_view(spec["stops"], n) or [0])
    if k == "regular":
        return n * spec["size"]
    if k == "indexed":
        return max([x for x in lg.idx_view(spec["index"], n)] + [-1]) + 1
    if k in ("bytemasked", "bitmasked", "unmasked"):
        return n
    return 10**9


# ================================================================================================ check metadata
def tier_opts(tier):
    if tier == "thorough":
        return {"runs": 300000, "determinism_sample": 1024, "perturb_sample": 4000, "asan_runs": 100000,
                "pool_max_ops": 24, "layout_max_depth": 4, "layout_exotic_dtypes": True, "run_timeout": 30.0,
                "shrink_per_class": 3, "mutants": True}
    return {"layout_exotic_dtypes": True, "asan_runs": 16000, "runs": 30000, "determinism_sample": 64, "perturb_sample": 1000, "pool_max_ops": 14, "layout_max_depth": 3,
            "run_timeout": 10.0, "shrink_per_class": 2}


ASSUMPTIONS = [
    "roots are valid by construction (layout_gen) and re-checked with validityerror; a root the library calls "
    "invalid is discarded, not reported",
    "'correct' for a result means 'unchanged since it was computed' (purity); this machine has no oracle for what an "
    "operation should return",
    "an ordinary failure is any std::exception (invalid_argument, runtime_error, out_of_range, bad_alloc, ...)",
    "after a stored-index corruption only validity check, printing and conversion are applied (the property promises "
    "nothing else for invalid arrays)",
    "input purity is judged on the full extent of every driver-owned root buffer (FNV-1a before/after each "
    "operation); results that depend on uninitialised or freed memory are caught by running the same seeds under "
    "three allocator fill bytes (glibc M_PERTURB) and, in the thorough tier, under AddressSanitizer",
    "only the C++ Content API is exercised (the ak.* Python layer cannot be built here)",
    "index arrays of slices: literal arrays, other arrays of the pool (Content::asslice(), what the Python layer does for "
    "everything it does not hand to NumPy) - only as the single array-like item of a slice, because several index arrays "
    "must broadcast and the Python layer refuses anything else -, or library-owned copies released before the slice is "
    "applied",
    "Identities are attached by setidentities() on a deep copy (the only mutator of the API never touches an operand); "
    "layout helper methods are dispatched on the dynamic node class after VirtualArray::array(), as the Python layer does",
    "allocation failures: the node's operator new is replaced (native/awsim_core.cpp); armed with k, the k-th C++ allocation "
    "inside one operation throws std::bad_alloc once. Any std::exception is an acceptable answer; crashing, modified "
    "inputs, or a different result when the operation is repeated are not. The seam is suspended while the harness "
    "reports an error, and does not exist on the sanitizer node (the sanitizer's operator new wins)",
]
COMPONENTS = {"real": ["src/cpu-kernels/*.cpp", "src/libawkward/array/*.cpp", "Content/Slice/Reducer/Index", "util::handle_error",
                       "kernel::malloc"],
              "stub": ["rapidjson (framework stub; form/tojson text and parameter comparison)"],
              "absent": ["pybind11 layer", "Python layer", "CUDA kernels"]}
RULE = ("one run = 1..3 valid root layouts generated from a random type with an explicit random encoding (every node "
        "class, 32/U32/64-bit indexes, non-zero offsets, gaps, unreachable content, all option encodings, unions, "
        "records, zero-length everything) + a seeded history of operations over a pool of results that share buffers, "
        "interleaved with drops of inputs and intermediates, re-reads, print/convert calls and optionally one "
        "stored-index corruption. distinct = hash of (node classes of the roots, op-class sequence, corruption yes/no); "
        "non-trivial = at least 3 events")
REQUIRED_PROBES = {"quick": ["operation_returned", "operation_raised", "live_value_reread", "print_or_convert",
                             "check_print_convert_on_corrupted", "recovered_after_allocation_failure",
                             "check_print_convert_on_inconsistent_layout"],
                   "thorough": ["operation_returned", "operation_raised", "live_value_reread", "print_or_convert",
                                "check_print_convert_on_corrupted"]}


def match_predicate(where, case, violation):
    if not where:
        return True
    if where.get("kind") == "op_region":
        # {"ops": [prefixes], "has_class": [all of these node classes in the operand], "axis_kind": [...] optional}
        f = (violation.get("detail") or {}).get("facts") or {}
        if not any(f.get("op", "").startswith(p) for p in where["ops"]):
            return False
        if not all(c in f.get("classes", []) for c in where.get("has_class", [])):
            return False
        if "axis_kind" in where and f.get("axis_kind") not in where["axis_kind"]:
            return False
        if "error_contains" in where and where["error_contains"] not in str((violation.get("detail") or {}).get("error", "")):
            return False
        return True
    return False
