"""C18 — VirtualArray / partitions behind a simulator-owned cache and generator (DESIGN.md section 7)."""
from __future__ import annotations

import copy
import json

from ..core import Discard, Violation, stable_hash
from ..models import layout_gen as lg
from ..models import ops as O
from ..models import value_model as vm
from ..node import NodeError

PROP = "C18"
ORDINARY = ("invalid_argument", "runtime_error", "out_of_range", "std", "bad_alloc", "walk")
POLICIES = ["none", "keep", "keep", "evict_always", "evict_random", "lossy_set", "broken"]
SLICE_NONE = 2**63 - 1       # awkward::Slice::none() (kSliceNone = kMaxInt64 + 1), how an omitted start/stop/step reaches the C++ layer
FAULTS = {"throw": 1, "short": 2, "wrong_form": 3, "long": 4, "short_wrong_form": 5}
META_COMPARED = ("length", "purelist_depth", "minmax_depth", "branch_depth", "keys", "numfields", "type")
BAD_GEN = ("throw", "short", "wrong_form", "short_wrong_form", "long")
META = {"length": 0, "form": 1, "type": 2, "purelist_depth": 3, "minmax_depth": 4, "branch_depth": 5, "keys": 6,
        "numfields": 7}
# operations on a virtual array with declared form and length that must not call the generator
LAZY_OPS = ("range", "field", "fields", "shallow_copy")
OPKINDS = ["at", "range", "field", "slice", "carry", "num", "flatten", "localindex", "reduce", "sort", "combinations",
           "rpad", "fillna", "merge", "simplify", "copy", "totype"]


# ================================================================================================ generator
def generate(rng, opts):
    r = rng
    if r.random() < opts.get("lazy_partition_rate", 0.3):
        return generate_partitioned(r, opts)
    bias = r.choice([None, None, None, {"rec": 5, "opt": 4}, {"opt": 5}, {"union": 4, "rec": 2}, {"list": 3, "reglist": 3}])
    topts = dict(opts, _type_bias=bias) if bias else opts
    t = lg.gen_type(r, 0, topts)
    records_of_options = r.random() < 0.06
    if records_of_options:
        # the shape on which the Form prediction of a lazy field projection has most to do: (optional) records whose
        # fields are of option type themselves, in every pairing of option node classes and index widths; the whole
        # array is lazy with a declared Form and the first thing that happens to it is a[key]
        names = r.sample(["x", "y", "z", "w"], r.choice([1, 2, 2, 3]))
        leaf = lambda: ["num", r.choice(lg.NUMERIC)] if r.random() < 0.8 else ["str"]
        rec = ["rec", [[k, ["opt", leaf()] if r.random() < 0.7 else leaf()] for k in names], r.choice([None, None, "Rec"])]
        t = r.choice([["opt", rec], ["opt", rec], ["opt", rec], rec, ["list", ["opt", rec]]])
    hidden_regular = not records_of_options and r.random() < 0.04
    if hidden_regular:
        # lists of optional fixed-size lists, the fixed-size node behind two VirtualArrays: option and list nodes have
        # to look *through* every VirtualArray around their content before they decide how to reduce, sort or pad it
        t = ["list", ["opt", ["reglist", ["num", r.choice(lg.NUMERIC)], r.choice([1, 2, 2, 3])]]]
    n = r.choice([0, 1, 2, 3, 3, 5, 8])
    truth = lg.SpecGen(r, opts).array(t, n)
    declare_form = r.random() < 0.6 or records_of_options
    declare_length = r.random() < 0.7
    lazy = lg.insert_virtuals(r, truth, r.choice([1, 1, 2, 3]), declare_form, declare_length, force_root=records_of_options,
                              double_below_option=hidden_regular)
    if any(k.isdigit() for k in lg.keys_of(truth)):
        # tuples somewhere: the slices will use positional keys ("0", "1"), which also select a field of a *named* record
        # by position - that does depend on the order in which a generator returns the fields
        lg.drop_reordered(lazy)
    if lazy["k"] == "virtual" and declare_length and n > 0 and not lazy.get("reordered") and r.random() < 0.06:
        # the outermost generator always produces more than it declares (declared 0 .. n-1 items): the array is what
        # was declared, from the first read on
        lazy["declared_shorter"] = r.choice([0, 0, n - 1, r.randrange(n)])
    keys = lg.virtual_keys(lazy)
    policy = r.choice(POLICIES)
    cache = {"policy": policy, "get": [], "set": []}
    if policy == "evict_always":
        cache["get"] = [1] * 400
    elif policy == "evict_random":
        p = r.choice([0.1, 0.3, 0.6])
        cache["get"] = [1 if r.random() < p else 0 for _ in range(400)]
    elif policy == "lossy_set":
        cache["set"] = [1] * 400
    enabled = {k: r.random() < 0.7 for k in OPKINDS}
    info = {"length": lg.spec_len(truth), "depth": lg.depth_of(truth), "keys": lg.keys_of(truth), "top": truth["k"]}
    try:
        inner = [len(x) for x in lg.value_of(truth) if isinstance(x, list)]
    except Exception:
        inner = []
    if inner:
        info["inner"] = max(inner)
    events = []
    nslots = 1
    nops = r.randint(3, opts.get("lazy_max_ops", 12))
    p_fault = r.choice([0.0, 0.0, 0.1, 0.25])
    p_alloc = r.choice([0.0, 0.0, 0.05, 0.15])
    p_evict = r.choice([0.0, 0.1, 0.3]) if policy in ("keep", "evict_random") else 0.0
    p_meta = r.choice([0.1, 0.3])
    for _ in range(nops):
        x = r.random()
        if x < p_evict:
            events.append({"e": "evict", "key": r.choice(keys + [""])})
            continue
        if x < p_evict + p_meta:
            events.append({"e": "meta", "slot": r.randrange(nslots), "what": r.choice(sorted(META))})
            continue
        slot = r.randrange(nslots)
        inf = info if slot == 0 else {"length": r.choice([0, 1, 2, 3]), "depth": r.choice([1, 2, 3]), "keys": info["keys"]}
        ev = {"e": "op", "slot": slot, "op": O.gen_op(r, inf, nslots, enabled)}
        if r.random() < p_fault and keys:
            kinds = ["throw"]
            if declare_length and lazy.get("declared_shorter") is None:
                kinds.append("short")
                kinds.append("long")
                if not declare_form:
                    kinds.append("short_wrong_form")
            if declare_form:
                kinds.append("wrong_form")
            ev["fault"] = {"key": r.choice(keys), "kind": r.choice(kinds), "calls": r.choice([1, 1, 2])}
            if r.random() < 0.5:
                # a question asked between the failed generation and the next successful one
                ev["fault"]["aftermath"] = r.choice(sorted(META))
        elif r.random() < p_alloc:
            # the k-th C++ allocation inside the lazy operation (materialisation, cache hand-over included) fails
            ev["alloc_fail"] = r.choice([0, 0, 1, 2, 3, 5, 8, 13, 21])
        events.append(ev)
        nslots += 1
    first_projection = False
    if info["keys"] and (r.random() < 0.3 or records_of_options):
        # the Form prediction of a lazy field projection, for every shape of record: the first thing that happens to
        # the untouched lazy array is a[key] (nothing has been materialised or cached yet)
        first_projection = True
        if r.random() < 0.8:
            op = {"op": "field", "key": r.choice(info["keys"])}
        else:
            op = {"op": "fields", "keys": r.sample(info["keys"], r.randint(1, len(info["keys"])))}
        events.insert(0, {"e": "op", "slot": 0, "op": op})
        ask = r.random() < 0.7
        for ev in events[1:]:
            # slot numbers of the later events move up by one
            if ev["e"] in ("op", "meta") and ev["slot"] >= 1:
                ev["slot"] += 1
            if ev["e"] == "op":
                if "other" in ev["op"] and ev["op"]["other"] >= 1:
                    ev["op"]["other"] += 1
                if "more" in ev["op"]:
                    ev["op"]["more"] = [x + 1 if x >= 1 else x for x in ev["op"]["more"]]
                for it in ev["op"].get("items", []):
                    if it.get("k") == "fromslot" and it["slot"] >= 1:
                        it["slot"] += 1
        if ask:
            # ... and what the lazy projection says about itself before anything is materialised
            events.insert(1, {"e": "meta", "slot": 1, "what": r.choice(["purelist_depth", "minmax_depth", "branch_depth", "type", "keys"])})
    return {"mode": "virtual", "truth": truth, "lazy": lazy, "cache": cache, "events": events,
            "declare": [declare_form, declare_length],
            # half of the runs do not read the whole lazy array first (a read fills a keeping cache, after which
            # most lazy paths are not taken any more)
            "initial_read": r.random() < 0.5 and not first_projection}


def generate_partitioned(r, opts):
    t = lg.gen_type(r, 0, opts)
    n = r.choice([0, 1, 2, 3, 5, 8, 12])
    truth = lg.SpecGen(r, opts).array(t, n)
    k = r.choice([1, 2, 2, 3, 4, 5])
    cuts = sorted(r.randint(0, n) for _ in range(k - 1))
    stops = cuts + [n]
    virtual = [r.random() < 0.3 for _ in range(k)]
    events = []
    cur_n = n
    for _ in range(r.randint(2, opts.get("lazy_max_ops", 12))):
        x = r.random()
        if x < 0.35:
            events.append({"e": "at", "i": O.gen_index(r, n)})
        elif x < 0.7:
            a, b = O.gen_range(r, n)
            step = r.choice([1, 1, None, None, 2, 3, -1, -2])
            if r.random() < 0.05:
                step = r.choice([2**31, 2**32, 2**32 + 1, 2**62 + 1, 2**63 - 2, -(2**32), -(2**62) - 1, -(2**63) + 1])
            if r.random() < 0.5:
                a, b = (0 if a is None else a), (n if b is None else b)
            # (None = omitted, as the Python layer passes a[i:j]: Slice::none())
            events.append({"e": "range", "start": a, "stop": b, "step": step,
                           "then": r.choice([None, "at", "repartition"])})
        elif x < 0.9:
            m = r.choice([1, 2, 3, 4])
            cuts2 = sorted(r.randint(0, n) for _ in range(m - 1))
            events.append({"e": "repartition", "stops": cuts2 + [n] + ([n] if r.random() < 0.15 else [])})
        else:
            events.append({"e": "tojson"})
    return {"mode": "partitioned", "truth": truth, "stops": stops, "virtual": virtual, "events": events}


# ================================================================================================ execution
def read_value(node, h):
    raw = node.dump(h)
    if len(raw) > 400000:
        # an operation (combinations, rpad to a large target) blew a small array up: decoding and comparing it in
        # Python would take longer than the per-run timeout allows - outside the explored size bound, no verdict
        raise Discard("result too large for the explored size bound")
    return vm.loads(raw)


def outcome(node, fn):
    """('raise', cls, msg) | ('value', v, handle)"""
    try:
        h = fn()
    except NodeError as e:
        return ("raise", e.cls, e.msg)
    try:
        return ("value", read_value(node, h), h)
    except NodeError as e:
        return ("raise_on_read", e.cls, e.msg, h)


def execute(node, case, rec, opts):
    if case["mode"] == "partitioned":
        return execute_partitioned(node, case, rec, opts)
    # ---- eager twin and lazy structure, from separate buffers
    eager = lg.realize(node, lg.strip_virtuals(case["truth"]))
    want = lg.value_of(case["truth"])
    if node.text(eager, 3) != b"":
        raise Discard("generated truth is not a valid layout")
    got = read_value(node, eager)
    if not vm.same(got, want):
        raise RuntimeError("walker and layout_gen disagree on the truth")
    if case["lazy"].get("declared_shorter") is not None:
        want = want[:case["lazy"]["declared_shorter"]]
        eager = node.op(28, eager, iargs=[0, case["lazy"]["declared_shorter"]])
        rec.fault("generator_always_produces_more_than_declared")
    rz = lg.Realized()
    pol = case["cache"]["policy"]
    if pol != "none":
        rz.cache = node.cache_new()
        node.cache_script(rz.cache, 0, case["cache"]["get"])
        node.cache_script(rz.cache, 1, case["cache"]["set"])
        if pol == "broken":
            node.cache_broken(rz.cache, True)
    lazy = lg.realize(node, case["lazy"], rz)
    UNORDERED[0] = '"reordered"' in json.dumps(case["lazy"])
    if UNORDERED[0]:
        rec.probe("generator_returns_record_fields_in_another_order")
    rec.fault("cache:" + pol)
    rec.state(("topology", tuple(sorted(set(c.split(":")[0] for c in lg.node_classes(case["lazy"]))))))
    def all_declared(sp):
        if sp["k"] == "virtual" and not (sp["declare_form"] and sp["declare_length"]):
            return False
        return all(all_declared(c) for c in ([sp["content"]] if "content" in sp else sp.get("contents", [])))
    # (a virtual array whose generator yields another virtual array declares no Form: see layout_gen.insert_virtuals)
    declared = case["declare"][0] and case["declare"][1] and all_declared(case["lazy"])

    def gen_calls():
        return {k: node.gen_calls(g) for k, g in rz.gens.items()}

    node.seam_log()
    lslots, eslots = [lazy], [eager]      # parallel pools; None = no array in that slot

    # the untouched lazy structure is transparent to start with
    if case.get("initial_read", True):
        o = outcome(node, lambda: node.op(23, lazy))
        if o[0] != "value" or not same_value(o[1], want):
            raise Violation("transparency", "lazy_array_differs_from_eager", {"stage": "initial read", "expected": vm.to_jsonable(want),
                                                                              "observed": o[1] if o[0] != "value" else vm.to_jsonable(o[1])})
        node.drop(o[2])
        node.seam_log()
    else:
        rec.probe("no_initial_read")

    for t, ev in enumerate(case["events"]):
        rec.ticks += 1
        e = ev["e"]
        if e == "evict":
            if rz.cache:
                n = node.cache_evict(rz.cache, ev["key"])
                if n:
                    rec.fault("evict_between_ops")
                rec.ev(t, "evict", ev["key"], n)
            continue
        if e == "meta":
            i = ev["slot"]
            if i >= len(lslots) or lslots[i] is None:
                continue
            before = gen_calls()
            try:
                em = node.materialise(lslots[i])
                b = node.meta(em, META[ev["what"]])
                node.drop(em)
                a = node.meta(lslots[i], META[ev["what"]])
            except NodeError as x:
                if x.cls not in ORDINARY:
                    raise Violation("robustness", "non_ordinary_exception", {"event": ev, "error": [x.cls, x.msg[:200]]}, at=t)
                continue
            rec.ev(t, "meta", ev["what"], a.decode("latin-1")[:200])
            if ev["what"] in META_COMPARED and a != b and not (UNORDERED[0] and ev["what"] in ("keys", "type")):
                raise Violation("transparency", "metadata_differs", {"what": ev["what"], "lazy": a.decode("latin-1"),
                                                                     "eager": b.decode("latin-1")}, at=t)
            if declared and i == 0 and gen_calls() != before and case["cache"]["policy"] in ("none", "keep"):
                raise Violation("laziness", "metadata_materialised_a_declared_virtual_array",
                                {"what": ev["what"], "generator_calls": [before, gen_calls()]}, at=t)
            rec.probe("metadata_compared")
            continue
        # ---- an operation on both pools
        i = ev["slot"]
        if i >= len(lslots) or lslots[i] is None or eslots[i] is None:
            lslots.append(None); eslots.append(None)
            continue
        op = ev["op"]
        if ("other" in op and (op["other"] >= len(lslots) or lslots[op["other"]] is None)) or \
                any(x >= len(lslots) or lslots[x] is None for x in op.get("more", [])):
            lslots.append(None); eslots.append(None)
            continue
        # the reference for this operation: the materialised array itself - the same tree of nodes as the lazy operand
        # with every VirtualArray replaced by what it stands for (built by the simulator; no seam is touched)
        try:
            em = node.materialise(lslots[i])
            mats = {i: em}

            def mat(s2):
                if s2 not in mats:
                    mats[s2] = node.materialise(lslots[s2])
                return mats[s2]
            for s2 in ([op["other"]] if "other" in op else []) + list(op.get("more", [])):
                mat(s2)
        except NodeError as x:
            if x.cls == "harness":
                raise
            rec.probe("materialised_reference_not_constructible")
            lslots.append(None); eslots.append(None)
            continue
        try:
            operand_invalid = node.text(em, 3) != b""
        except NodeError:
            operand_invalid = True
        if operand_invalid:
            # the materialised operand is not a valid layout (an earlier lazy result hid an unsimplified nesting behind a
            # VirtualArray - reported at that operation): nothing meaningful to compare from here on for this slot
            rec.probe("materialised_operand_is_not_a_valid_layout")
            lslots.append(None); eslots.append(None)
            continue
        if op["op"] == "combinations":
            # combinatorial blow-up is legitimate work, not a hang: bounded by the longest list anywhere in the operand
            from .pool import max_list_len
            try:
                too_long = node.length(em) > 12 or max_list_len(read_value(node, em)) > 12
            except NodeError:
                too_long = True
            if too_long:
                lslots.append(None); eslots.append(None)
                continue
        try:
            has_records = op["op"] in ("reduce", "sort", "argsort") and b"RecordArray" in node.text(em, 6)
        except NodeError:
            has_records = True
        if has_records:
            # reducing or sorting records has no defined value in this version (each field is processed on its own
            # and a Record scalar comes back): nothing to be transparent about
            rec.probe("skipped_reduce_or_sort_of_records")
            lslots.append(None); eslots.append(None)
            continue
        if op["op"] in ("carry", "range_nowrap"):
            n = node.length(em)
            op = dict(op)
            if op["op"] == "carry":
                op["index"] = [x % n for x in op["index"]] if n > 0 else []
            else:
                lo = min(max(op["start"], 0), n)
                op["start"], op["stop"] = lo, min(max(op["stop"], lo), n)
        fault = ev.get("fault")
        if fault and fault["key"] in rz.gens:
            node.gen_script_at(rz.gens[fault["key"]], [FAULTS[fault["kind"]]] * fault["calls"])
        tmp = []
        eo = outcome(node, lambda: O.apply(node, op, em, mat, tmp))
        node.seam_log()
        k_fail = ev.get("alloc_fail") if not fault and node.alloc_supported() else None
        alloc_fired = [False]

        def lazy_apply():
            if k_fail is None:
                return O.apply(node, op, lslots[i], lambda s: lslots[s], tmp)
            node.alloc_arm(k_fail)
            try:
                return O.apply(node, op, lslots[i], lambda s: lslots[s], tmp)
            finally:
                alloc_fired[0] = node.alloc_disarm()[0]
        lo_ = outcome(node, lazy_apply)
        log = node.seam_log()
        consumed = [ln.split()[1] for ln in log if ln.startswith("gen ") and ln.split()[2] in BAD_GEN]
        if fault and fault["key"] in rz.gens:
            node.gen_script_at(rz.gens[fault["key"]], [])     # faults stop
        for x in tmp:
            try:
                node.drop(x)
            except Exception:
                pass
        for x in (eo, lo_):
            if x[0] != "value" and x[1] not in ORDINARY:
                raise Violation("robustness", "non_ordinary_exception", {"event": ev, "error": [x[1], x[2][:200]]}, at=t)
        rec.ev(t, O.op_class(op), eo[0], lo_[0], log, eo[1] if eo[0] != "value" else vm.to_jsonable(eo[1]))
        if any(ln.endswith(" evicted") for ln in log):
            rec.fault("evict_on_get")
        if any(ln.endswith(" lost") for ln in log):
            rec.fault("lossy_or_broken_set")
        if any(ln.endswith(" broken") for ln in log):
            rec.fault("broken_cache_get")
        if eo[0] != "value":
            # the property speaks about operations that have a value on the materialised array; when the eager
            # operation fails, the lazy one only has to fail or return like any ordinary call
            rec.probe("eager_operation_raised")
            lslots.append(None); eslots.append(None)
            continue
        if op["op"] not in ("at", "slice") and node.isscalar(eo[2]):
            # e.g. num(axis=0): a bare length or a Record of lengths depending on the node class that happens to be
            # on top - not an array-valued operation, and layout-dependent already without any laziness
            rec.probe("eager_operation_returned_a_scalar")
            lslots.append(None); eslots.append(None)
            continue
        if alloc_fired[0]:
            # an allocation failed somewhere inside the lazy operation: it may raise or (if nothing depended on the
            # allocation) return the right value; nothing partial may stay behind - the same call again must give the
            # materialised array's answer
            rec.fault("allocation_failure")
            if lo_[0] == "value" and not same_outcome(eo, lo_):
                raise Violation("enforcement", "allocation_failure_gave_another_result",
                                {"event": ev, "eager": show(eo), "lazy": show(lo_), "seam_log": log[-30:]}, at=t)
            l2 = outcome(node, lambda: O.apply(node, op, lslots[i], lambda s: lslots[s], tmp))
            log2 = node.seam_log()
            if not same_outcome(eo, l2):
                from .pool import operand_facts
                raise Violation("recovery", "no_recovery_after_faults_stopped",
                                {"event": ev, "fault": {"kind": "allocation_failure", "k": k_fail}, "eager": show(eo),
                                 "lazy_retry": show(l2), "seam_log": log + ["--- retry ---"] + log2,
                                 "facts": operand_facts(node, em, op)}, at=t)
            rec.probe("recovered_after_allocation_failure")
            lo_ = l2
        elif consumed:
            rec.fault("gen_" + fault["kind"])
            # enforcement: the faulty generation must surface as an error ...
            trimmed = False
            if lo_[0] == "value" and fault["kind"] == "long" and same_outcome(eo, lo_):
                # ... except that a generation *longer* than declared may also be cut to the declared length: the
                # declared length is enforced either way, and nothing of the surplus is visible
                trimmed = True
                rec.probe("longer_generation_not_visible")
            elif lo_[0] == "value" and fault["kind"] == "long":
                # accepted, and the result is not the materialised array's: reported like any other difference (with
                # the facts about the operation, so that a difference that belongs to a recorded finding is recognised)
                from .pool import operand_facts
                raise Violation("transparency", "lazy_result_differs_from_eager",
                                {"event": ev, "fault": fault, "eager": show(eo), "lazy": show(lo_), "seam_log": log[-30:],
                                 "facts": operand_facts(node, em, op)}, at=t)
            elif lo_[0] == "value":
                raise Violation("enforcement", "faulty_generation_went_unnoticed",
                                {"event": ev, "fault": fault, "lazy_result": vm.to_jsonable(lo_[1]),
                                 "eager_result": vm.to_jsonable(eo[1]), "seam_log": log}, at=t)
            # ... and must not be stored: no 'set' for that key between the failed generation and the next good one
            for k in set(consumed) if not trimmed else ():
                bad = False
                for ln in log:
                    w = ln.split()
                    if w[0] == "gen" and w[1] == k:
                        bad = w[2] in BAD_GEN
                    elif bad and w[0] == "cache" and w[1] == "set" and w[2] == k and w[3] == "stored":
                        raise Violation("enforcement", "failed_generation_was_cached", {"event": ev, "key": k, "seam_log": log}, at=t)
            # ... and must leave nothing of itself visible: a metadata question asked now (faults have stopped, no
            # successful generation has happened yet) is answered as the materialised array answers it
            what = fault.get("aftermath")
            if what in META_COMPARED:
                try:
                    b = node.meta(em, META[what])
                    a = node.meta(lslots[i], META[what])
                except NodeError as x:
                    if x.cls not in ORDINARY:
                        raise Violation("robustness", "non_ordinary_exception", {"event": ev, "error": [x.cls, x.msg[:200]]}, at=t)
                else:
                    rec.probe("metadata_compared_after_failed_generation")
                    if a != b and not (UNORDERED[0] and what in ("keys", "type")):
                        raise Violation("enforcement", "failed_generation_left_metadata_behind",
                                        {"event": ev, "what": what, "lazy": a.decode("latin-1"), "eager": b.decode("latin-1"),
                                         "seam_log": log + ["--- after ---"] + node.seam_log()}, at=t)
                node.seam_log()
            # recovery (bounded liveness): faults have stopped, the very next attempt must succeed with the twin's value
            l2 = outcome(node, lambda: O.apply(node, op, lslots[i], lambda s: lslots[s], tmp))
            log2 = node.seam_log()
            rec.probe("recovery_attempts")
            if not same_outcome(eo, l2):
                from .pool import operand_facts
                raise Violation("recovery", "no_recovery_after_faults_stopped",
                                {"event": ev, "fault": fault, "eager": show(eo), "lazy_retry": show(l2), "seam_log": log + ["--- retry ---"] + log2,
                                 "facts": operand_facts(node, em, op)}, at=t)
            lo_ = l2
        else:
            if not same_outcome(eo, lo_):
                from .pool import operand_facts
                raise Violation("transparency", "lazy_result_differs_from_eager",
                                {"event": ev, "eager": show(eo), "lazy": show(lo_), "seam_log": log[-30:],
                                 "facts": operand_facts(node, em, op)}, at=t)
            rec.probe("operations_compared")
        if eo[0] == "value" and lo_[0] == "value" and not node.isscalar(eo[2]) and not node.isscalar(lo_[2]):
            # equal values are not everything: the lazy result must also be a layout that later operations accept
            # whenever the eager one is (an option inside an option reads fine but sorts and fills wrongly)
            try:
                ve = node.text(eo[2], 3)
                lm = node.materialise(lo_[2])        # validityerror cannot see through a VirtualArray
                vl = node.text(lm, 3)
                node.drop(lm)
            except NodeError:
                ve, vl = b"?", b"?"
            if ve != b"" and ve != b"?":
                rec.probe("eager_result_is_not_a_valid_layout")
                lslots.append(None); eslots.append(None)
                continue
            if ve == b"" and vl not in (b"", b"?"):
                from .pool import operand_facts
                raise Violation("transparency", "lazy_result_is_not_a_valid_layout",
                                {"event": ev, "validityerror": vl.decode(errors="replace")[:300], "seam_log": log[-30:],
                                 "facts": operand_facts(node, em, op)}, at=t)
        if eo[0] == "value" and lo_[0] == "value" and not node.isscalar(eo[2]):
            lslots.append(lo_[2]); eslots.append(eo[2])
        else:
            lslots.append(None); eslots.append(None)

    # never stale or partial: at the end every live lazy handle still reads the twin's value
    for i, (l, e) in enumerate(zip(lslots, eslots)):
        if l is None:
            continue
        a, b = outcome(node, lambda: node.op(23, l)), outcome(node, lambda: node.op(23, e))
        if not same_outcome(b, a):
            raise Violation("transparency", "lazy_value_went_stale", {"slot": i, "eager": show(b), "lazy": show(a)})
        rec.probe("final_reads_compared")


def _has_bytes(v):
    if isinstance(v, bytes):
        return True
    if isinstance(v, list):
        return any(_has_bytes(x) for x in v)
    if isinstance(v, tuple):
        if v and v[0] == "rec":
            return any(_has_bytes(x) for _, x in v[2])
        if v and v[0] == "tup":
            return any(_has_bytes(x) for x in v[1])
    return False


def canon(v):
    """record fields in key order (a record is a mapping: a generator may return the fields in another order than the
    declared Form lists them)"""
    if isinstance(v, list):
        return [canon(x) for x in v]
    if isinstance(v, tuple) and v:
        if v[0] == "rec":
            return ("rec", v[1], sorted(((k, canon(x)) for k, x in v[2]), key=lambda kv: kv[0]))
        if v[0] == "tup":
            return ("tup", [canon(x) for x in v[1]])
        if v[0] == "scalar":
            return ("scalar", canon(v[1]))
    return v


UNORDERED = [False]     # set per run: some generator of this case returns record fields in another order


def same_value(a, b):
    return vm.same(canon(a), canon(b)) if UNORDERED[0] else vm.same(a, b)


def same_outcome(e, l):
    """eager outcome vs lazy outcome: equal values, or both fail (a lazy array may defer its error to the read)"""
    if e[0] == "value":
        return l[0] == "value" and same_value(e[1], l[1])
    return l[0] != "value"


def show(o):
    if o[0] == "value":
        return vm.to_jsonable(o[1])
    flag = ""
    if "does not conform to expected form" in o[2]:
        # the predicted Form of a deferred slice against what was generated; a VirtualArray inside the generated array
        # means the prediction simplified nesting that the array could not (it cannot see through the VirtualArray)
        flag = "form_mismatch"
        if "VirtualArray" in o[2]:
            # in the generated Form: the prediction simplified what the array could not; in the expected Form: it was
            # inferred from an earlier generation in which an inner VirtualArray was not yet materialised
            flag = "form_mismatch:generated_contains_virtual"
    return [o[0], o[1], o[2][:200], flag]


def execute_partitioned(node, case, rec, opts):
    truth = lg.realize(node, lg.strip_virtuals(case["truth"]))
    want = lg.value_of(case["truth"])
    if node.text(truth, 3) != b"":
        raise Discard("generated truth is not a valid layout")
    n = len(want)
    parts = []
    prev = 0
    for k, stop in enumerate(case["stops"]):
        h = node.op(28, truth, iargs=[prev, stop])
        if case["virtual"][k]:
            g = node.gen_new(h, True, True, 0, 0, "p%d" % k)
            h = node.virtual(g, 0, "p%d" % k)
        parts.append(h)
        prev = stop
        if stop == (case["stops"][k - 1] if k else 0):
            rec.fault("empty_partition")
    P = node.part(parts, case["stops"])
    rec.state(("partitions", len(parts), any(case["virtual"])))

    def pdump(p):
        return vm.loads(node.part_text(p, 0))

    got = pdump(P)
    if not vm.same(got, want, numeric=True):
        raise Violation("transparency", "partitioned_differs_from_concatenated", {"stage": "initial", "expected": vm.to_jsonable(want),
                                                                                  "observed": vm.to_jsonable(got)})
    cur, cur_want = P, want
    for t, ev in enumerate(case["events"]):
        rec.ticks += 1
        e = ev["e"]
        m = len(cur_want)
        try:
            if e == "at":
                i = ev["i"]
                reg = i + m if i < 0 else i
                ok = 0 <= reg < m
                try:
                    h = node.part_op(cur, 0, [i])
                    raised = None
                except NodeError as x:
                    raised = x
                rec.ev(t, "at", i, None if raised is None else raised.cls)
                if ok:
                    if raised is not None:
                        raise Violation("transparency", "partitioned_getitem_at_refused", {"i": i, "length": m, "error": [raised.cls, raised.msg[:200]]}, at=t)
                    v = read_value(node, h)
                    exp = cur_want[reg]
                    vv = v[1] if isinstance(v, tuple) and v and v[0] == "scalar" else v
                    if not vm.same(vv, exp, numeric=True):
                        raise Violation("transparency", "partitioned_getitem_at_differs", {"i": i, "expected": vm.to_jsonable(exp),
                                                                                           "observed": vm.to_jsonable(v)}, at=t)
                else:
                    if raised is None:
                        raise Violation("transparency", "partitioned_getitem_at_out_of_range_accepted", {"i": i, "length": m}, at=t)
                    if raised.cls not in ORDINARY:
                        raise Violation("robustness", "non_ordinary_exception", {"error": [raised.cls, raised.msg[:200]]}, at=t)
                rec.probe("partition_at_compared")
            elif e == "range":
                exp = cur_want[slice(ev["start"], ev["stop"], ev["step"])]
                p2 = node.part_op(cur, 1, [SLICE_NONE if x is None else x for x in (ev["start"], ev["stop"], ev["step"])])
                v = pdump(p2)
                rec.ev(t, "range", ev["start"], ev["stop"], ev["step"], vm.to_jsonable(v))
                if not vm.same(v, exp, numeric=True):
                    raise Violation("transparency", "partitioned_getitem_range_differs",
                                    {"range": [ev["start"], ev["stop"], ev["step"]], "expected": vm.to_jsonable(exp),
                                     "observed": vm.to_jsonable(v), "partition_info": node.part_text(cur, 2).decode()}, at=t)
                info = node.part_text(p2, 2).decode()
                if int(info.split(";")[2]) != len(exp):
                    raise Violation("transparency", "partitioned_length_differs", {"info": info, "expected": len(exp)}, at=t)
                rec.probe("partition_range_compared")
                if ev.get("then"):
                    cur, cur_want = p2, exp     # go on working with the slice
                    rec.fault("boundary_straddling_range")
            elif e == "repartition":
                stops = [min(s, m) for s in ev["stops"]]
                stops = sorted(stops)
                if not stops or stops[-1] != m:
                    stops.append(m)
                p2 = node.part_op(cur, 2, stops)
                v = pdump(p2)
                rec.ev(t, "repartition", stops, vm.to_jsonable(v))
                # (merging two partitions promotes integers that sit next to floats in a union, exactly as
                # concatenating them would: numbers are compared by value)
                if not vm.same(v, cur_want, numeric=True):
                    raise Violation("transparency", "repartition_changes_value", {"stops": stops, "expected": vm.to_jsonable(cur_want),
                                                                                  "observed": vm.to_jsonable(v)}, at=t)
                info = node.part_text(p2, 2).decode()
                want_info = "%d;%s;%d" % (len(stops), "".join("%d," % s for s in stops), m)
                if info != want_info:
                    raise Violation("transparency", "repartition_stops_differ", {"info": info, "expected": want_info}, at=t)
                cur = p2
                rec.probe("repartitions_compared")
                if len(set(stops)) != len(stops):
                    rec.fault("empty_partition")
            else:
                try:
                    txt = node.part_text(cur, 1)
                except NodeError as x:
                    if x.cls in ORDINARY and ("Complex numbers can't be converted to JSON" in x.msg or
                                              "cannot convert Numpy format" in x.msg):
                        # the dtype has no JSON form (complex without complex_record_fields, datetimes): the
                        # concatenated array is refused in the same way
                        rec.probe("tojson_refused_for_dtype")
                        continue
                    raise
                rec.ev(t, "tojson", len(txt))
                from ..models import json_ref as jr
                from .jsonio import json_view
                wantj, unwritable = json_view(cur_want, {"nan": None, "inf": None, "minf": None})
                pp = jr.parse_stream(txt, uint64_ok=True)
                if not unwritable and not _has_bytes(cur_want):
                    if pp.status != "ok" or len(pp.docs) != 1 or not vm.same(pp.docs[0], wantj, numeric=True):
                        raise Violation("transparency", "partitioned_tojson_differs",
                                        {"event": ev, "expected": vm.to_jsonable(cur_want), "partitioned": txt[:300].decode("latin-1"),
                                         "partition_info": node.part_text(cur, 2).decode()}, at=t)
                    rec.probe("partitioned_tojson_compared")
        except NodeError as x:
            if x.cls not in ORDINARY:
                raise Violation("robustness", "non_ordinary_exception", {"event": ev, "error": [x.cls, x.msg[:200]]}, at=t)
            raise Violation("transparency", "partitioned_operation_raised", {"event": ev, "error": [x.cls, x.msg[:300], "form_mismatch" if "does not conform to expected form" in x.msg else ""],
                                                                             "partition_info": node.part_text(cur, 2).decode()}, at=t)


# ================================================================================================ measures
def signature(case):
    if case["mode"] == "partitioned":
        evs = [e["e"] for e in case["events"]]
        return [stable_hash(["part", len(case["stops"]), len(set(case["stops"])) != len(case["stops"]), case["virtual"], evs]), True]
    classes = sorted(set(c.split(":")[0] for c in lg.node_classes(case["lazy"])))
    evs = [(e["e"], O.op_class(e["op"]) if e["e"] == "op" else e.get("what"), (e.get("fault") or {}).get("kind")) for e in case["events"]]
    return [stable_hash([classes, case["cache"]["policy"], case["declare"], evs]), len(case["events"]) >= 3]


def describe(case):
    d = {"mode": case["mode"], "truth_value": vm.to_jsonable(lg.value_of(case["truth"])), "events": case["events"]}
    if case["mode"] == "partitioned":
        d["stops"] = case["stops"]
        d["virtual_partitions"] = case["virtual"]
    else:
        d["lazy_classes"] = lg.node_classes(case["lazy"])
        d["cache_policy"] = case["cache"]["policy"]
        d["declare_form_length"] = case["declare"]
    return d


# ================================================================================================ shrinking
def shrink_candidates(case):
    ev = case["events"]
    n = len(ev)
    if case["mode"] == "partitioned":
        size = n // 2
        while size >= 1:
            for start in range(0, n, size):
                d = copy.deepcopy(case); del d["events"][start:start + size]; yield d
            size //= 2
        if any(case["virtual"]):
            d = copy.deepcopy(case); d["virtual"] = [False] * len(case["virtual"]); yield d
        if len(case["stops"]) > 1:
            for i in range(len(case["stops"]) - 1):
                d = copy.deepcopy(case); del d["stops"][i]; del d["virtual"][i]; yield d
        return
    from . import pool
    size = n // 2
    while size >= 1:
        for start in range(0, n, size):
            yield remove_events(case, range(start, min(n, start + size)))
        size //= 2
    for i, e in enumerate(ev):
        if e.get("fault"):
            d = copy.deepcopy(case); del d["events"][i]["fault"]; yield d
    if case["cache"]["policy"] != "keep":
        d = copy.deepcopy(case); d["cache"] = {"policy": "keep", "get": [], "set": []}; yield d
    if case["cache"]["policy"] != "none":
        d = copy.deepcopy(case); d["cache"] = {"policy": "none", "get": [], "set": []}; yield d
    # fewer virtual nodes: un-wrap one
    keys = lg.virtual_keys(case["lazy"])
    if len(keys) > 1:
        for k in keys:
            d = copy.deepcopy(case); d["lazy"] = unwrap(d["lazy"], k); yield d


def unwrap(spec, key):
    if spec["k"] == "virtual" and spec["key"] == key:
        return spec["content"]
    d = dict(spec)
    if "content" in spec:
        d["content"] = unwrap(spec["content"], key)
    if "contents" in spec:
        d["contents"] = [unwrap(c, key) for c in spec["contents"]]
    return d


def remove_events(case, idxs):
    idxs = set(idxs)
    d = copy.deepcopy(case)
    old_slot = {}
    s = 1
    for i, e in enumerate(case["events"]):
        if e["e"] == "op":
            old_slot[i] = s
            s += 1
    removed = {old_slot[i] for i in idxs if i in old_slot}
    remap = {}
    new = 0
    for sl in range(s):
        if sl in removed:
            continue
        remap[sl] = new
        new += 1
    out = []
    for i, e in enumerate(d["events"]):
        if i in idxs:
            continue
        if "slot" in e:
            if e["slot"] not in remap:
                continue
            e["slot"] = remap[e["slot"]]
        if e["e"] == "op":
            op = e["op"]
            if "other" in op:
                op["other"] = remap.get(op["other"], 0)
            if "more" in op:
                op["more"] = [remap.get(x, 0) for x in op["more"]]
        out.append(e)
    d["events"] = out
    return d


# ================================================================================================ check metadata
def tier_opts(tier):
    if tier == "thorough":
        return {"runs": 300000, "determinism_sample": 1024, "perturb_sample": 2000, "asan_runs": 60000,
                "lazy_max_ops": 20, "layout_max_depth": 4, "run_timeout": 30.0, "shrink_per_class": 3, "mutants": True}
    return {"layout_exotic_dtypes": True, "asan_runs": 8000, "runs": 25000, "determinism_sample": 64, "perturb_sample": 300, "lazy_max_ops": 12, "layout_max_depth": 3,
            "run_timeout": 10.0, "shrink_per_class": 2}


ASSUMPTIONS = [
    "the model of a virtual or partitioned array is, by the property's own statement, the materialised concatenated "
    "array: aws_materialise rebuilds the identical tree with every VirtualArray replaced by the truth of its "
    "SimGenerator or by the slice that its SliceGenerator defers (SliceGenerator::generate is mirrored), and every "
    "operation is applied to both; results are compared through the independent walker after forcing (a lazy array "
    "may defer an error to the moment it is read). An eager twin from separate buffers checks the initial read",
    "no verdict for an operation whose result on the materialised array is an error, a scalar or an invalid layout; "
    "results whose dump exceeds 400 kB end the run as a discard",
    "ArrayCache and ArrayGenerator are the simulator's own subclasses (SimCache, SimGenerator): every get/set/"
    "generate answer is scripted by the run (hit, evicted-just-now, lost set, broken cache; ok, throw, short, wrong "
    "form); cache keys are explicit and unique; a virtual node is never placed directly under a string list "
    "(an invalid layout by the documented rules)",
    "'short' faults are injected only when the length is declared and 'wrong form' only when the form is declared "
    "(nothing is promised otherwise); a generation longer than declared ('long': the same items followed by one or two of "
    "them again, same Form) must either raise or be invisible - the library accepts it and cuts it to the declared length",
    "at-most-once generation under a keeping cache is recorded as a probe, not demanded",
    "only the C++ layer is decided: ak.virtual, ak.materialized, ak.partitioned, ak.repartition and "
    "src/awkward/partition.py cannot run here",
]
COMPONENTS = {"real": ["src/libawkward/array/VirtualArray.cpp", "virtual/ArrayGenerator.cpp (generate_and_check, SliceGenerator)",
                       "partition/PartitionedArray.cpp", "partition/IrregularlyPartitionedArray.cpp", "all array classes and kernels"],
              "stub": ["rapidjson (framework stub; Form comparison goes through Form::equal, not JSON)",
                       "ArrayCache / ArrayGenerator implementations (the seams themselves; simulator-owned subclasses)"],
              "absent": ["pybind11 layer (PyArrayCache, PyArrayGenerator)", "Python layer (ak.virtual, ak.partitioned, partition.py)"]}
RULE = ("one run = a valid truth layout + either (a) the same layout with 1-3 nodes wrapped in VirtualArray over a "
        "scripted cache (none/keep/evict-always/evict-randomly/lossy/broken) and scripted generators, or (b) a splitting "
        "into 1-5 partitions (empty ones included, some virtual) - then a seeded history of operations, each applied to the "
        "lazy operand and to its materialisation (the same tree with every VirtualArray replaced by what it stands for, "
        "built by the simulator without touching a seam), with evictions between operations and generator faults or an "
        "allocation failure placed inside operations, each followed by a recovery attempt. distinct = hash of (topology classes, cache policy, declared "
        "form/length, op-class and fault sequence); non-trivial = at least 3 events")
REQUIRED_PROBES = {"quick": ["recovered_after_allocation_failure", "operations_compared", "metadata_compared", "final_reads_compared", "partition_at_compared",
                             "partition_range_compared", "repartitions_compared", "recovery_attempts",
                             "metadata_compared_after_failed_generation", "longer_generation_not_visible",
                             "generator_returns_record_fields_in_another_order", "no_initial_read"],
                   "thorough": ["operations_compared", "metadata_compared", "final_reads_compared", "partition_at_compared",
                                "partition_range_compared", "repartitions_compared", "recovery_attempts"]}


def match_predicate(where, case, violation):
    if not where:
        return True
    if where.get("kind") == "predicted_slice_form_bitmasked":
        # the lazily predicted Form of a range slice disagrees with the sliced array, and a BitMaskedArray is involved
        import json as _json
        text = _json.dumps(violation.get("detail"))
        return "form_mismatch" in text and "bitmasked" in _json.dumps(lg.node_classes(case["truth"]))
    if where.get("kind") == "union_of_lazy_parts_number_type":
        # a union built at run time (merge / merge_as_union / mergemany) over parts that are still VirtualArrays: the
        # eager array merges an integer content into a float content when the union is simplified, the lazy one cannot
        # see that the two are mergeable - the values differ in number type only
        det = violation.get("detail") or {}
        classes = (det.get("facts") or {}).get("classes") or []
        if not any(c.startswith("UnionArray") for c in classes):
            return False
        if not any(e.get("e") == "op" and e["op"].get("op") in ("merge", "merge_as_union", "mergemany") for e in case.get("events", [])):
            return False
        try:
            eg, lz = vm.from_jsonable(det.get("eager")), vm.from_jsonable(det.get("lazy"))
        except Exception:
            return False
        return (not vm.same(eg, lz)) and vm.same(eg, lz, numeric=True)
    if where.get("kind") == "unsimplified_option_in_type_through_virtual":
        # the type of a lazy result shows an option of an option (e.g. ??int32) where the materialised array shows one:
        # the same nesting that simplify_optiontype cannot remove across a VirtualArray, seen through type()
        det = violation.get("detail") or {}
        if det.get("what") != "type":
            return False
        lz, eg = det.get("lazy") or "", det.get("eager") or ""

        def bare(t):
            return t.replace("?", "").replace("option[", "").replace("[", "").replace("]", "")

        def nopt(t):
            return t.count("?") + t.count("option[")
        if bare(lz) != bare(eg) or nopt(lz) == nopt(eg):
            return False       # (either side may show the extra option: the Form prediction simplifies what the array cannot)
        return match_predicate({"kind": "simplification_through_virtual", "structure_only": True}, case, violation)
    if where.get("kind") == "simplification_through_virtual":
        # the failing operation is one that simplifies option/union nesting (fillna / simplify / field projection), and the lazy structure has
        # a VirtualArray directly below or directly above an option-type or union node
        ev = (violation.get("detail") or {}).get("event") or {}
        unsimplified = "forgotten to call 'simplify_" in ((violation.get("detail") or {}).get("validityerror") or "")
        if unsimplified and violation.get("class") == "lazy_result_is_not_a_valid_layout":
            # the validity check itself names the cause: nesting that only simplify_optiontype/uniontype removes was
            # left in the lazy result (the IndexedArray in between may come from a lazy carry at run time, so the
            # structure at the start need not show it) while the materialised array gave a valid layout
            return True
        import json as _json
        if where.get("structure_only"):
            pass
        elif "form_mismatch:generated_contains_virtual" in _json.dumps(violation.get("detail")):
            pass    # whichever operation deferred the slice: the structural condition below decides
        elif '"form_mismatch"' in _json.dumps(violation.get("detail")):
            # predicted and generated Form differ and no VirtualArray is involved in either: not this finding (a wrong
            # Form prediction is a defect of its own - seeded change C18-12 hid behind this matcher once)
            return False
        elif (ev.get("op") or {}).get("op") not in ("fillna", "simplify", "field", "fields"):
            return False

        def is_optun(k, spec):
            # simplify_optiontype also collapses IndexedArray over IndexedArray, so a plain "indexed" counts
            return k in ("bytemasked", "bitmasked", "unmasked", "union", "indexed")

        def walk(spec, parent_optun, parent_virtual):
            k = spec["k"]
            if k == "virtual" and parent_optun:
                return True
            if parent_virtual and is_optun(k, spec):
                return True
            for c in ([spec["content"]] if "content" in spec else spec.get("contents", [])):
                if walk(c, is_optun(k, spec), k == "virtual"):
                    return True
            return False
        return walk(case["lazy"], False, False)
    if where.get("kind") == "newaxis_on_record":
        # some slice of the history has a newaxis, and there is a RecordArray for it to meet
        def has_newaxis(e):
            return any(it.get("k") == "newaxis" for it in ((e.get("op") or {}).get("items") or []))
        return any(has_newaxis(e) for e in case.get("events", [])) and "record" in lg.node_classes(case["truth"])
    if where.get("kind") == "empty_advanced_index_over_union":
        det = violation.get("detail") or {}
        items = ((det.get("event") or {}).get("op") or {}).get("items") or []
        classes = (det.get("facts") or {}).get("classes") or []
        return any(it.get("k") == "ints" and it.get("v") == [] for it in items) and any(c.startswith("UnionArray") for c in classes)
    if where.get("kind") == "error_contains":
        err = (violation.get("detail") or {}).get("error") or []
        return any(isinstance(x, str) and where["text"] in x for x in err)
    if where.get("kind") == "op_region":
        f = (violation.get("detail") or {}).get("facts") or {}
        if not any(f.get("op", "").startswith(p) for p in where["ops"]):
            return False
        if "axis_kind" in where and f.get("axis_kind") not in where["axis_kind"]:
            return False
        if where.get("axis_negative") and not (isinstance(f.get("axis"), int) and f["axis"] < 0):
            return False
        if "classes_any" in where and not set(where["classes_any"]) & set(f.get("classes", [])):
            return False
        return True
    return False
