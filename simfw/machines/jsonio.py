"""C15 — JSON reader/writer over simulated streams with truncation and corruption faults (DESIGN.md section 8)."""
from __future__ import annotations

import copy
import math

from ..core import Discard, Violation, stable_hash
from ..models import json_ref as jr
from ..models import value_model as vm
from ..node import NodeError
from ..models import layout_gen as lg
from . import builder as bm

PROP = "C15"

BUFSIZES = [4, 5, 7, 8, 16, 64, 65536]
CHUNKS = [[1], [2], [3], [1, 2, 3], [5], [7, 1], [64], [1, 1, 50], []]
STRUCT = b'[]{}:,"\\ 0123456789abcdefnrstuEe-+.lTF/'
KEYS = ["x", "y", "z", "w", "", "a b", "é", "k\"q", "0"]
STRS = ["", "a", "abc", "hello world", "quo\"te", "back\\slash", "sl/ash", "nul\x00mid", "éè", "中文", "\U0001f600",
        "tab\tnl\n\r\b\f", "x" * 40, "NaN", "Infinity", "true", "[1]", "\x7f", " "]
INTS = [0, 1, -1, 2, 10, 255, 65536, 2**31 - 1, -2**31, 2**31, 2**32 - 1, 2**32, 2**53, 2**53 + 1, -(2**53) - 1, 2**63 - 1,
        -2**63, 4294967295, 4294967296, -2147483649]
FLOATS = [0.0, -0.0, 1.0, -1.5, 2.5, 3.14, 1e100, -1e-100, 5e-324, 1.7976931348623157e308, 0.1, 1e21, 1e-7, 123456.789,
          2.2250738585072014e-308]


# ================================================================================================ generator
class Gen:
    def __init__(self, r, opts, allow_nonfinite):
        self.r = r
        kinds = ["none", "bool", "int", "float", "str", "list", "rec"]
        self.en = {k: r.random() < 0.65 for k in kinds}
        if not any(self.en[k] for k in ("bool", "int", "float", "str")):
            self.en["int"] = True
        self.max_depth = r.choice([1, 2, 2, 3, 3, 4, 6])
        self.max_width = r.choice([1, 2, 3, 4, 5])
        self.allow_nonfinite = allow_nonfinite

    def value(self, depth, palette=None):
        r = self.r
        kinds = palette or [k for k in self.en if self.en[k]]
        if depth >= self.max_depth:
            kinds = [k for k in kinds if k not in ("list", "rec")] or ["int"]
        k = r.choice(kinds)
        if k == "none":
            return None
        if k == "bool":
            return r.random() < 0.5
        if k == "int":
            return r.choice(INTS) if r.random() < 0.5 else r.randint(-20, 20)
        if k == "float":
            if self.allow_nonfinite and r.random() < 0.2:
                return r.choice([float("nan"), float("inf"), float("-inf")])
            return r.choice(FLOATS) if r.random() < 0.6 else r.randint(-500, 500) / 8.0
        if k == "str":
            return r.choice(STRS)
        if k == "list":
            sub = self.sub()
            return [self.value(depth + 1, sub) for _ in range(r.randint(0, self.max_width))]
        keys = [x for x in KEYS if r.random() < 0.35]
        r.shuffle(keys)
        sub = self.sub()
        return ("rec", None, [(key, self.value(depth + 1, sub)) for key in keys])

    def sub(self):
        kinds = [k for k in self.en if self.en[k]]
        n = self.r.choice([1, 1, 2, 2, 3, len(kinds)])
        return self.r.sample(kinds, min(n, len(kinds)))


def to_text_value(v, cfg):
    """non-finite floats travel as the configured strings"""
    if isinstance(v, float):
        if math.isnan(v):
            return cfg["nan"]
        if math.isinf(v):
            return cfg["inf"] if v > 0 else cfg["minf"]
        return v
    if isinstance(v, list):
        return [to_text_value(x, cfg) for x in v]
    if isinstance(v, tuple) and v[0] == "rec":
        return ("rec", None, [(k, to_text_value(x, cfg)) for k, x in v[2]])
    return v


def generate(rng, opts):
    r = rng
    cfg = {"nan": None, "inf": None, "minf": None}
    if r.random() < 0.35:
        cfg = {"nan": r.choice(["NaN", "nan", "n/a"]), "inf": r.choice(["Infinity", "inf", "+oo"]),
               "minf": r.choice(["-Infinity", "-inf", "-oo"])}
        if r.random() < 0.3:
            # only some of the three strings are set (each writer branch tests its own string)
            for key in ("nan", "inf", "minf"):
                if r.random() < 0.4:
                    cfg[key] = None
    if r.random() < opts.get("json_layout_share", 0.3):
        # output side on arrays the JSON reader can never produce: every node class, index width and numeric dtype,
        # strided and offset buffers (the reader only builds int64/float64/bool leaves below ListOffsetArray64)
        lopts = {"layout_max_depth": r.choice([1, 2, 3]), "layout_no_bytes": True,
                 "layout_exotic_dtypes": r.random() < 0.4}     # complex128 (written as records) and datetime64 (refused)
        t = lg.gen_type(r, 0, lopts)
        n = r.choice([0, 1, 2, 3, 5, 8])
        spec = lg.SpecGen(r, lopts).array(t, n)
        return {"mode": "layout", "spec": spec, "type": t, "cfg": cfg, "initial": r.choice(bm.INITIAL), "resize": r.choice(bm.RESIZE),
                "complex_fields": r.choice([["r", "i"], ["real", "imag"], None]),
                "out": {"maxdecimals": r.choice([-1, -1, -1, 3]), "buffersize": r.choice(BUFSIZES)}}
    g = Gen(r, opts, allow_nonfinite=cfg["nan"] is not None)
    ndocs = r.choice([1, 1, 1, 2, 3, 5])
    palette = g.sub() if r.random() < 0.6 else None
    docs = [g.value(0, palette) for _ in range(ndocs)]
    style = {"ws": r.choice([0, 1, 2]), "exp": r.random() < 0.3, "esc": r.random() < 0.4}
    seps = [r.choice(["", " ", "\n", "\r\n", "\t ", "   "]) for _ in range(ndocs + 1)]
    parts = [seps[0]]
    for i, d in enumerate(docs):
        t = jr.emit(to_text_value(d, cfg), r, style)
        # two adjacent scalars need a separator to stay two documents
        sep = seps[i + 1]
        if i + 1 < len(docs) and sep == "" and not isinstance(d, (list, tuple)) and not isinstance(docs[i + 1], (list, tuple)):
            sep = " "
        parts.append(t)
        parts.append(sep)
    text = "".join(parts).encode("utf-8")
    fault = None
    x = r.random()
    n = len(text)
    if x < 0.25 or n == 0:
        fault = None
    elif x < 0.45 and n <= opts.get("json_truncate_all_max", 80):
        fault = ["truncate_all"]
    elif x < 0.65:
        fault = ["truncate", r.randrange(n)]
    elif x < 0.85:
        fault = ["corrupt", r.randrange(n), r.choice(STRUCT)]
    elif x < 0.90:
        fault = ["delete", r.randrange(n)]
    elif x < 0.95:
        fault = ["dup", r.randrange(n)]
    else:
        fault = ["swap", r.randrange(max(1, n - 1))]
    reads = [{"via": r.choice([1, 1, 2]), "buffersize": r.choice(BUFSIZES), "chunks": r.choice(CHUNKS)}
             for _ in range(opts.get("json_reads", 2))]
    alloc_fail = r.choice([0, 1, 2, 3, 5, 8, 13, 21, 34]) if fault is None and r.random() < 0.5 else None
    return {"docs": [vm.to_jsonable(d) for d in docs], "text": text.hex(), "fault": fault, "reads": reads, "alloc_fail": alloc_fail,
            "initial": r.choice(bm.INITIAL), "resize": r.choice(bm.RESIZE), "cfg": cfg,
            "out": {"maxdecimals": r.choice([-1, -1, -1, 3]), "buffersize": r.choice(BUFSIZES)}}


def apply_fault(data: bytes, fault):
    if fault is None:
        return data
    k = fault[0]
    if k == "truncate":
        return data[:fault[1]]
    p = min(fault[1], len(data) - 1) if data else 0
    if not data:
        return data
    if k == "corrupt":
        return data[:p] + bytes([fault[2]]) + data[p + 1:]
    if k == "delete":
        return data[:p] + data[p + 1:]
    if k == "dup":
        return data[:p] + data[p:p + 1] + data[p:]
    if k == "swap":
        if p + 1 >= len(data):
            return data
        return data[:p] + data[p + 1:p + 2] + data[p:p + 1] + data[p + 2:]
    raise AssertionError(fault)


def pos_class(data: bytes, p: int):
    """where in the token structure does byte p fall (for the coverage measure)"""
    instr = False
    esc = False
    depth = 0
    for i, c in enumerate(data[:p + 1]):
        if i == p:
            if instr:
                return "in_string_escape" if esc else "in_string"
            if c in b"0123456789-+.eE":
                return "in_number"
            if c in b"truefalsn":
                return "in_literal"
            if c in b" \t\r\n":
                return "between_documents" if depth == 0 else "whitespace"
            return "structural"
        if instr:
            if esc:
                esc = False
            elif c == 0x5C:
                esc = True
            elif c == 0x22:
                instr = False
        else:
            if c == 0x22:
                instr = True
            elif c in b"[{":
                depth += 1
            elif c in b"]}":
                depth -= 1
    return "end"


# ================================================================================================ execution
def expected_value(docs, cfg):
    """what FromJson* must return for k >= 1 complete documents"""
    def conv(v):
        if isinstance(v, str):
            if cfg["nan"] is not None and v == cfg["nan"]:
                return float("nan")
            if cfg["inf"] is not None and v == cfg["inf"]:
                return float("inf")
            if cfg["minf"] is not None and v == cfg["minf"]:
                return float("-inf")
            return v
        if isinstance(v, list):
            return [conv(x) for x in v]
        if isinstance(v, tuple) and v[0] == "rec":
            return ("rec", None, [(k, conv(x)) for k, x in v[2]])
        return v
    docs = [conv(d) for d in docs]
    shown = vm.unify(docs)
    if len(shown) == 1:
        d = shown[0]
        return d if isinstance(d, list) else ("scalar", d)
    return shown


def parse_real(node, via, data, case, read=None):
    cfg = case["cfg"]
    if via == 0:
        return node.fromjson(0, data, initial=case["initial"], resize=case["resize"], nan=cfg["nan"], inf=cfg["inf"],
                             minf=cfg["minf"])
    return node.fromjson(read["via"], data, buffersize=read["buffersize"], initial=case["initial"],
                         resize=case["resize"], nan=cfg["nan"], inf=cfg["inf"], minf=cfg["minf"], chunks=read["chunks"])


def outcome(node, fn):
    try:
        h = fn()
    except NodeError as e:
        return ("raise", e.cls, e.msg)
    try:
        v = vm.loads(node.dump(h))
    except NodeError as e:
        # the reader returned something the independent walker cannot read (an index pointing outside its content ...)
        try:
            verr = node.text(h, 3).decode("latin-1")[:300]
        except NodeError:
            verr = "(the validity check raised too)"
        raise Violation("value", "result_is_not_a_readable_layout", {"error": [e.cls, e.msg[:300]], "validityerror": verr})
    return ("value", v, h)


def check_one(node, case, rec, data, label, fault_kind, do_output):
    ref = jr.parse_stream(data)
    rec.ticks += 1
    o = outcome(node, lambda: parse_real(node, 0, data, case))
    rec.ev(label, ref.status, len(ref.docs), o[0], o[1] if o[0] == "raise" else vm.to_jsonable(o[1]))
    if o[0] == "raise" and o[1] not in ("invalid_argument",):
        raise Violation("errors", "unexpected_exception_class", {"error": [o[1], o[2][:300]], "text": show_text(data)})
    if ref.status == "malformed":
        rec.fault(fault_kind + ":malformed")
        if o[0] != "raise":
            raise Violation("malformed", "malformed_or_truncated_input_accepted",
                            {"text": show_text(data), "why_malformed": ref.reason, "at": ref.pos,
                             "returned": vm.to_jsonable(o[1]), "complete_documents_before": len(ref.docs)})
    elif ref.status == "ok" and len(ref.docs) >= 1:
        rec.fault(fault_kind + ":still_valid")
        if o[0] == "raise":
            raise Violation("value", "valid_json_refused", {"text": show_text(data), "error": [o[1], o[2][:300]]})
        exp = expected_value(ref.docs, case["cfg"])
        if not vm.same(o[1], exp):
            raise Violation("value", "parsed_value_differs", {"text": show_text(data), "expected": vm.to_jsonable(exp),
                                                              "observed": vm.to_jsonable(o[1])})
    elif ref.status == "ok":
        # no document at all (empty or blank stream): the rule "k documents give an array of k values" with k = 0
        rec.fault(fault_kind + ":empty")
        if o[0] == "raise":
            raise Violation("value", "empty_stream_refused", {"text": show_text(data), "error": [o[1], o[2][:300]]})
        if not vm.same(o[1], []):
            raise Violation("value", "parsed_value_differs", {"text": show_text(data), "expected": [],
                                                              "observed": vm.to_jsonable(o[1])})
        rec.probe("empty_streams_checked")
    else:
        rec.probe("gray_input")
    # chunking independence: any buffer size / read pattern gives what the string reader gives
    for rd in case["reads"]:
        o2 = outcome(node, lambda: parse_real(node, 1, data, case, rd))
        rec.ticks += 1
        rec.ev(label, "file", rd, o2[0])
        same = (o[0] == o2[0]) and (o[0] == "raise" or vm.same(o[1], o2[1]))
        if not same:
            raise Violation("chunking", "file_reader_differs_from_string_reader",
                            {"text": show_text(data), "read": rd,
                             "string": o[1] if o[0] == "raise" else vm.to_jsonable(o[1]),
                             "file": o2[1] if o2[0] == "raise" else vm.to_jsonable(o2[1])})
        if o2[0] == "value":
            node.drop(o2[2])
        rec.probe("chunked_reads_compared")
    # an allocation failure inside the reader: an ordinary error or the right value, never a crash or another value;
    # and the reader works again afterwards
    k_fail = case.get("alloc_fail")
    if k_fail is not None and label == "intact" and node.alloc_supported():
        fired = [False]

        def faulted_parse():
            node.alloc_arm(k_fail)
            try:
                return parse_real(node, 0, data, case)
            finally:
                fired[0] = node.alloc_disarm()[0]      # the seam covers the reader only, not the harness' own dump
        o3 = outcome(node, faulted_parse)
        fired = fired[0]
        if fired:
            rec.fault("allocation_failure")
            if o3[0] == "raise":
                if o3[1] == "nonstd":
                    raise Violation("robustness", "nonstd_exception", {"text": show_text(data), "error": [o3[1], o3[2][:200]]})
            elif o[0] != "value" or not vm.same(o[1], o3[1]):
                raise Violation("robustness", "allocation_failure_gave_another_result",
                                {"text": show_text(data), "with_failure": vm.to_jsonable(o3[1]),
                                 "without": o[1] if o[0] == "raise" else vm.to_jsonable(o[1])})
            o4 = outcome(node, lambda: parse_real(node, 0, data, case))
            same = (o[0] == o4[0]) and (o[0] == "raise" or vm.same(o[1], o4[1]))
            if not same:
                raise Violation("robustness", "reader_differs_after_allocation_failure",
                                {"text": show_text(data), "before": o[1] if o[0] == "raise" else vm.to_jsonable(o[1]),
                                 "after": o4[1] if o4[0] == "raise" else vm.to_jsonable(o4[1])})
            if o4[0] == "value":
                node.drop(o4[2])
            rec.probe("recovered_after_allocation_failure")
        if o3[0] == "value":
            node.drop(o3[2])
    if o[0] == "value":
        if do_output and ref.status == "ok" and len(ref.docs) >= 1:
            check_output(node, case, rec, o[2], o[1])
        node.drop(o[2])


def json_view(v, cfg, complex_fields=None):
    """the JSON value a walker value must be written as; returns (value, has_unwritable_nonfinite)"""
    bad = [False]

    def conv(x):
        if isinstance(x, complex):
            if complex_fields is None:
                bad[0] = True
                return None
            return ("rec", None, [(complex_fields[0], conv(x.real)), (complex_fields[1], conv(x.imag))])
        if isinstance(x, float):
            if math.isnan(x):
                if cfg["nan"] is None:
                    bad[0] = True
                return cfg["nan"]
            if math.isinf(x):
                s = cfg["inf"] if x > 0 else cfg["minf"]
                if s is None:
                    bad[0] = True
                return s
            return x
        if isinstance(x, list):
            return [conv(y) for y in x]
        if isinstance(x, tuple):
            if x[0] == "rec":
                return ("rec", None, [(k, conv(y)) for k, y in x[2]])
            if x[0] == "tup":
                return ("rec", None, [(str(i), conv(y)) for i, y in enumerate(x[1])])
            if x[0] == "scalar":
                return conv(x[1])
        return x
    return conv(v), bad[0]


def approx(a, b, digits):
    if isinstance(a, float) and isinstance(b, (int, float)) and not isinstance(b, bool):
        return abs(a - b) <= 10.0 ** (-digits) * 1.0000001 or (a != 0 and abs((a - b) / a) < 1e-12)
    if isinstance(a, list) and isinstance(b, list) and len(a) == len(b):
        return all(approx(x, y, digits) for x, y in zip(a, b))
    if isinstance(a, tuple) and isinstance(b, tuple) and a[0] == "rec" and b[0] == "rec" and len(a[2]) == len(b[2]):
        return all(ka == kb and approx(x, y, digits) for (ka, x), (kb, y) in zip(a[2], b[2]))
    return vm.same(a, b)


def check_output(node, case, rec, h, value):
    cfg = case["cfg"]
    if isinstance(value, tuple) and value[0] == "scalar" and not (isinstance(value[1], tuple) and value[1][0] == "rec"):
        # a lone number/string/null is not an array; whether a root scalar is flushed to a file is decided by the
        # (stubbed) writer
        rec.probe("scalar_root_not_written")
        return
    cf = case.get("complex_fields")
    want, unwritable = json_view(value, cfg, cf)
    texts = []
    for via in (0, 1, 2, 3):
        try:
            t = node.tojson(h, via, buffersize=case["out"]["buffersize"], maxdecimals=case["out"]["maxdecimals"],
                            nan=cfg["nan"], inf=cfg["inf"], minf=cfg["minf"], cre=cf[0] if cf else None, cim=cf[1] if cf else None)
        except NodeError as e:
            if e.cls in ("nonstd",):
                raise Violation("robustness", "nonstd_exception", {"error": [e.cls, e.msg[:300]]})
            if e.cls == "invalid_argument" and ("cannot convert Numpy format" in e.msg or
                                                (cf is None and "Complex numbers can't be converted to JSON" in e.msg)):
                # documented: datetimes have no JSON form, complex numbers need complex_record_fields
                rec.probe("to_json_refused_for_dtype")
                return
            raise Violation("output", "to_json_raised", {"via": via, "error": [e.cls, e.msg[:300]],
                                                         "value": vm.to_jsonable(value)})
        texts.append(t)
        rec.ticks += 1
    rec.probe("outputs_checked")
    if unwritable:
        rec.probe("nonfinite_without_strings")
        return          # property: rendered "through the user-chosen strings"; none chosen -> only "no crash"
    parsed = []
    for via, t in enumerate(texts):
        pr = jr.parse_stream(t, uint64_ok=True)
        if pr.status != "ok" or len(pr.docs) != 1:
            raise Violation("output", "to_json_not_well_formed", {"via": via, "text": show_text(t), "why": pr.reason,
                                                                  "value": vm.to_jsonable(value)})
        parsed.append(pr.docs[0])
    md = case["out"]["maxdecimals"]
    for via, got in enumerate(parsed):
        ok = vm.same(got, want) if md < 0 else approx(want, got, md)
        if not ok:
            raise Violation("output", "to_json_value_differs", {"via": via, "text": show_text(texts[via]),
                                                                "expected": vm.to_jsonable(want), "parsed_back": vm.to_jsonable(got)})
    if not (texts[0] == texts[2] and texts[1] == texts[3]):
        raise Violation("output", "file_writer_differs_from_string_writer",
                        {"string": show_text(texts[0]), "file": show_text(texts[2])})
    # from_json(to_json(a)) == a  (a is already unified)
    if md < 0 and case.get("mode") != "layout":
        o = outcome(node, lambda: parse_real(node, 0, texts[0], case))
        if o[0] == "raise":
            raise Violation("roundtrip", "own_output_refused", {"text": show_text(texts[0]), "error": [o[1], o[2][:300]]})
        back = o[1]
        orig = value[1] if isinstance(value, tuple) and value[0] == "scalar" and False else value
        if not vm.same(back, orig):
            raise Violation("roundtrip", "from_json_of_to_json_differs",
                            {"text": show_text(texts[0]), "original": vm.to_jsonable(orig), "back": vm.to_jsonable(back)})
        node.drop(o[2])
        rec.probe("roundtrips_checked")


def show_text(b: bytes):
    try:
        return b.decode("utf-8")
    except UnicodeDecodeError:
        return {"hex": b.hex()}


def execute_layout(node, case, rec, opts):
    h = lg.realize(node, case["spec"])
    if node.text(h, 3) != b"":
        raise Discard("generated layout is not valid")
    try:
        value = vm.loads(node.dump(h))
    except NodeError as e:
        raise Discard("walker cannot read the generated layout: %s" % e)
    if not vm.same(value, lg.value_of(case["spec"])):
        raise RuntimeError("walker and layout_gen disagree")
    rec.state(("layout", tuple(sorted(set(c.split(":")[0] for c in lg.node_classes(case["spec"]))))))
    rec.probe("layout_outputs")
    check_output(node, case, rec, h, value)


def execute(node, case, rec, opts):
    if case.get("mode") == "layout":
        return execute_layout(node, case, rec, opts)
    data = bytes.fromhex(case["text"])
    # self-check of the emitter / reference parser pair on the unfaulted text
    ref0 = jr.parse_stream(data)
    docs0 = [vm.from_jsonable(d) for d in case["docs"]]
    if not case.get("selfcheck", True):
        pass
    elif ref0.status == "ok":
        if not vm.same(ref0.docs, [to_text_value(d, case["cfg"]) for d in docs0]):
            raise RuntimeError("emitter and reference parser disagree on %r" % (data,))
    elif ref0.status == "malformed":
        raise RuntimeError("emitter produced text the reference parser rejects: %r (%s)" % (data, ref0.reason))
    fault = case["fault"]
    if fault is None:
        check_one(node, case, rec, data, "intact", "none", True)
        return
    if fault[0] == "truncate_all":
        for t in range(len(data)):
            rec.state(("trunc", pos_class(data, t)))
            check_one(node, case, rec, data[:t], "trunc@%d" % t, "truncate@" + pos_class(data, t), False)
        rec.probe("exhaustive_truncation_sweeps")
        return
    faulted = apply_fault(data, fault)
    pc = pos_class(data, min(fault[1], len(data) - 1)) if data else "end"
    rec.state((fault[0], pc))
    check_one(node, case, rec, faulted, fault[0], fault[0] + "@" + pc, True)


# ================================================================================================ measures
def shape(v):
    if isinstance(v, list):
        return ["L"] + sorted({json_dumps(shape(x)) for x in v})
    if isinstance(v, dict) and "fields" in v:
        return ["R"] + [[k, shape(x)] for k, x in v["fields"]]
    if isinstance(v, dict):
        return sorted(v)[0]
    return type(v).__name__


def json_dumps(x):
    import json
    return json.dumps(x, sort_keys=True)


def signature(case):
    if case.get("mode") == "layout":
        return [stable_hash(["layout", sorted(set(lg.node_classes(case["spec"]))), case["cfg"]["nan"] is not None]), True]
    f = case["fault"]
    data = bytes.fromhex(case["text"])
    fk = None if f is None else (f[0], pos_class(data, min(f[1], len(data) - 1)) if len(f) > 1 and data else None)
    bufs = sorted({r["buffersize"] <= 8 for r in case["reads"]})
    return [stable_hash([[shape(d) for d in case["docs"]], fk, bufs, case["cfg"]["nan"] is not None]),
            f is not None or len(data) >= 10]


def describe(case):
    if case.get("mode") == "layout":
        return {"mode": "layout", "type": case["type"], "classes": lg.node_classes(case["spec"]),
                "value": vm.to_jsonable(lg.value_of(case["spec"])), "cfg": case["cfg"], "out": case["out"]}
    return {"text": show_text(bytes.fromhex(case["text"])), "fault": case["fault"], "reads": case["reads"],
            "cfg": case["cfg"], "growth": [case["initial"], case["resize"]], "out": case["out"]}


# ================================================================================================ shrinking
def shrink_candidates(case):
    if case.get("mode") == "layout":
        from .pool import simpler_specs
        for sub in simpler_specs(case["spec"]):
            d = copy.deepcopy(case); d["spec"] = sub; yield d
        # a field or content on its own
        sp = case["spec"]
        for sub in ([sp["content"]] if "content" in sp else []) + list(sp.get("contents", [])):
            d = copy.deepcopy(case); d["spec"] = sub; yield d
        if case["cfg"]["nan"] is not None:
            d = copy.deepcopy(case); d["cfg"] = {"nan": None, "inf": None, "minf": None}; yield d
        if case["out"]["maxdecimals"] != -1:
            d = copy.deepcopy(case); d["out"]["maxdecimals"] = -1; yield d
        return
    data = bytes.fromhex(case["text"])
    f = case["fault"]
    faulted = data if f is None or f[0] == "truncate_all" else apply_fault(data, f)

    def with_text(b, fault):
        d = copy.deepcopy(case)
        d["text"] = b.hex()
        d["docs"] = []
        d["fault"] = fault
        d["selfcheck"] = False
        return d
    # turn any fault into "this literal text": then shrink the text itself
    if f is not None and f[0] != "truncate_all":
        yield with_text(faulted, None)
    if f is not None and f[0] == "truncate_all":
        for t in range(len(data)):
            yield with_text(data[:t], None)
        return
    n = len(faulted)
    size = n // 2
    while size >= 1:
        for start in range(0, n, size):
            yield with_text(faulted[:start] + faulted[start + size:], None)
        size //= 2
    if len(case["reads"]) > 1:
        for i in range(len(case["reads"])):
            d = copy.deepcopy(case); d["reads"] = [case["reads"][i]]; yield d
    if case["reads"]:
        d = copy.deepcopy(case); d["reads"] = []; yield d
    for key, val in (("initial", 1024), ("resize", 1.5)):
        if case[key] != val:
            d = copy.deepcopy(case); d[key] = val; yield d
    if case["cfg"]["nan"] is not None:
        d = copy.deepcopy(case); d["cfg"] = {"nan": None, "inf": None, "minf": None}; yield d
    if case["out"]["maxdecimals"] != -1:
        d = copy.deepcopy(case); d["out"]["maxdecimals"] = -1; yield d


# ================================================================================================ check metadata
def tier_opts(tier):
    if tier == "thorough":
        return {"runs": 300000, "determinism_sample": 1024, "perturb_sample": 2000, "asan_runs": 60000,
                "json_truncate_all_max": 200, "json_reads": 3, "run_timeout": 30.0, "shrink_per_class": 3,
                "mutants": True}
    return {"asan_runs": 4000, "runs": 30000, "determinism_sample": 64, "perturb_sample": 300, "json_truncate_all_max": 80,
            "json_reads": 2, "run_timeout": 6.0, "shrink_per_class": 2}


ASSUMPTIONS = [
    "the tokenizer/formatter underneath json.cpp is the framework's rapidjson-compatible stub (the submodule is "
    "empty in this sandbox): this check decides the repo's streaming, event-to-array and array-to-event logic, "
    "not number formatting, escaping or tokenisation",
    "the reference parser (simfw/models/json_ref.py) is strict RFC 8259 over a stream of concatenated documents; "
    "a NUL byte ends the stream (tokenizer contract); inputs it calls gray (numbers outside int64/double, "
    "duplicate keys, lone surrogates, invalid UTF-8, NUL in a key) and streams with zero documents get no verdict",
    "expected values come from the documented builder unification (value_model.unify); one document is returned "
    "as itself, k > 1 documents as a k-element array",
    "non-finite floats are checked only when the nan/infinity strings are configured",
    "ak.from_json / ak.to_json (Python wrappers) cannot be built here",
]
COMPONENTS = {"real": ["src/libawkward/io/json.cpp (Handler, do_parse, FromJsonString/File, ToJson*)",
                       "Content::tojson and every tojson_part", "ArrayBuilder behind the SAX handler"],
              "stub": ["rapidjson (framework stub: tokenizer, writer, FileReadStream/FileWriteStream)"],
              "absent": ["pybind11 layer", "Python layer (ak.from_json, ak.to_json)"]}
RULE = ("one run = 1..5 seeded documents rendered by the framework's emitter (whitespace, escape and exponent "
        "spellings) + one fault on the byte stream (truncate at t, corrupt/delete/duplicate/swap a byte, or every "
        "truncation point of the text) + builder growth knobs + two file-read configurations (buffer size x chunk "
        "pattern x stdio buffering); the faulted bytes are classified by a strict reference parser. distinct = hash "
        "of (document shapes, fault kind, token class at the fault position, buffer class); non-trivial = a fault "
        "was injected or the text has at least 10 bytes")
REQUIRED_PROBES = {"quick": ["recovered_after_allocation_failure", "chunked_reads_compared", "outputs_checked", "roundtrips_checked", "exhaustive_truncation_sweeps"],
                   "thorough": ["chunked_reads_compared", "outputs_checked", "roundtrips_checked", "exhaustive_truncation_sweeps"]}


def match_predicate(where, case, violation):
    if not where:
        return True
    return False
