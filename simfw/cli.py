"""check <property> [--tier quick|thorough] [--replay FILE] [--mutants] ...

Exit codes: 0 = property held on everything explored (KNOWN-FINDING lines possible),
            1 = violation (line `VIOLATION property=<id> replay=<path>`),
            2 = harness error (build failure, determinism self-test mismatch, internal exception).
"""
from __future__ import annotations

import argparse
import importlib
import json
import os
import random
import subprocess
import sys
import time
import traceback

from . import build as buildmod
from . import core
from .core import WorkerDeath

MACHINES = {"C19": "forth", "C14": "builder", "C18": "lazy", "C15": "jsonio", "C12": "pool"}
LEVEL = {"C19": "exploration", "C14": "exploration", "C18": "exploration", "C15": "fault_enumeration",
         "C12": "exploration"}
DEFAULT_SEED = {"quick": 20261004, "thorough": 20261005}
KNOWN = os.path.join(core.VERIF, "known_findings.json")
ASAN_EXIT = 86


def log(*a):
    print(*a, file=sys.stderr, flush=True)


def load_machine(prop):
    return importlib.import_module("simfw.machines." + MACHINES[prop])


# ------------------------------------------------------------------------------------------------- known findings
def load_known(prop):
    try:
        with open(KNOWN) as f:
            data = json.load(f)
    except FileNotFoundError:
        return []
    # an entry recorded under another property also applies where its "seen_in" names this one (the same crash is
    # met by every machine whose workload contains that operation)
    return [e for e in data.get("findings", []) if e.get("property") == prop or prop in e.get("seen_in", [])]


def match_known(machine, known, case, violation):
    for e in known:
        if e.get("status") != "known":
            continue          # fixed entries suppress nothing
        alts = e["match"] if isinstance(e["match"], list) else [e["match"]]
        for m in alts:
            if _match_one(machine, m, case, violation):
                return e
    return None


def _match_one(machine, m, case, violation):
    if m.get("oracle") not in (None, violation["oracle"]):
        return False
    if m.get("class") not in (None, violation["class"]) and not \
            (m.get("class") == "death" and violation["class"].split(":")[0] in ("process_killed", "sanitizer_report")):
        return False
    w = m.get("where")
    if w and w.get("kind") == "crash_site":
        site = (violation.get("detail") or {}).get("site")
        return bool(site and site.get("function") and w["function"] in site["function"] and
                    (w.get("error") is None or w["error"] in (site.get("kind") or "")))
    return bool(machine.match_predicate(w, case, violation))


# ------------------------------------------------------------------------------------------------- shrinking
def same_class(res, target):
    return isinstance(res, dict) and res.get("kind") == "violation" and \
        (res["violation"]["oracle"], res["violation"]["class"]) == target


def shrink_in_process(machine, node, case, violation, opts, max_execs=3000, max_s=90.0):
    target = (violation["oracle"], violation["class"])
    t0 = time.time()
    execs = 0
    improved = True
    while improved:
        improved = False
        for cand in machine.shrink_candidates(case):
            if execs >= max_execs or time.time() - t0 > max_s:
                return case, violation, execs
            execs += 1
            res = core.execute_case(machine, node, cand, opts, perturb=opts.get("_perturb", 0xA5))
            if same_class(res, target):
                case, violation = cand, res["violation"]
                improved = True
                break
    return case, violation, execs


def shrink_violation(machine, libpath, case, violation, opts, perturb):
    """Runs the shrink loop inside one forked child (a candidate may crash); falls back to the original."""
    r, w = os.pipe()
    sys.stdout.flush()
    pid = os.fork()
    if pid == 0:
        os.close(r)
        try:
            import signal
            from .node import Node
            os.dup2(os.open(os.devnull, os.O_WRONLY), 1)
            signal.signal(signal.SIGALRM, signal.SIG_DFL)
            signal.setitimer(signal.ITIMER_REAL, 240)
            node = Node(libpath)
            opts = dict(opts)
            opts["_perturb"] = perturb
            c, v, n = shrink_in_process(machine, node, case, violation, opts)
            os.write(w, json.dumps({"case": c, "violation": v, "execs": n}, default=core._json_default).encode())
        except BaseException:
            pass
        finally:
            os._exit(0)
    os.close(w)
    chunks = []
    while True:
        b = os.read(r, 1 << 16)
        if not b:
            break
        chunks.append(b)
    os.close(r)
    os.waitpid(pid, 0)
    if chunks:
        try:
            d = json.loads(b"".join(chunks))
            return d["case"], d["violation"], d["execs"]
        except ValueError:
            pass
    return case, violation, 0


def death_class(how):
    return ("robustness", "process_killed:" + how if not how.startswith("exit:%d" % ASAN_EXIT) else "sanitizer_report") \
        if how != "timeout" else ("robustness", "hang")


def shrink_death(machine, libpath, case, how, opts, perturb, max_execs=400, max_s=120.0):
    """Every candidate runs in its own child; kept while the child still dies (any death counts as same class
    except that a hang must stay a hang)."""
    t0 = time.time()
    execs = 0
    want_hang = how == "timeout"
    timeout = opts.get("run_timeout", 20.0)
    improved = True
    while improved:
        improved = False
        for cand in machine.shrink_candidates(case):
            if execs >= max_execs or time.time() - t0 > max_s:
                return case, how, execs
            execs += 1
            res = core.run_single_in_child(machine, libpath, "case", {"case": cand, "perturb": perturb}, opts,
                                           timeout=timeout)
            if isinstance(res, WorkerDeath) and ((res.how == "timeout") == want_hang):
                case, how = cand, res.how
                improved = True
                break
    return case, how, execs


# ------------------------------------------------------------------------------------------------- replay files
def write_replay(prop, verif_seed, index, seed, flavour, perturb, fingerprint, case, violation, machine, extra=None):
    os.makedirs(core.REPLAYS, exist_ok=True)
    doc = {"property": prop, "verif_seed": verif_seed, "run_index": index, "run_seed": seed, "flavour": flavour,
           "perturb": perturb, "code_fingerprint": fingerprint, "case": case, "violation": violation,
           "readable": machine.describe(case)}
    if extra:
        doc.update(extra)
    name = "%s-%s-%s.json" % (prop, index if index is not None else "x", core.stable_hash([case, violation["oracle"], violation["class"]]))
    path = os.path.join(core.REPLAYS, name)
    with open(path, "w") as f:
        json.dump(doc, f, indent=1, default=core._json_default)
    return path


def do_replay(prop, path, flavour, repo):
    machine = load_machine(prop)
    with open(path) as f:
        doc = json.load(f)
    b = buildmod.build(repo, flavour)
    opts = machine.tier_opts("quick")
    opts["keep_events"] = True
    want = doc["violation"]
    hist = (want.get("detail") or {}).get("history_indices") if isinstance(want.get("detail"), dict) else None
    if hist:
        # a violation that needs the calls that preceded it in the process: the runs are regenerated from their indices
        # and executed in order in one fresh process (replay = function of the seed, the indices and the code)
        res2, _ = core.run_batch(machine, b["lib"], hist, want["detail"]["history_verif_seed"], prop, machine.tier_opts(want["detail"].get("tier", "quick")), workers=1)
        r2 = res2.get(hist[-1])
        if r2 is not None and r2.get("kind") == "violation":
            print("reproduced: %s/%s (in context: %s/%s)" % (want["oracle"], want["class"], r2["violation"]["oracle"], r2["violation"]["class"]))
            print("VIOLATION property=%s replay=%s" % (prop, path))
            return 1
        print("not reproduced on this tree (got %s)" % (r2 and r2.get("kind"),))
        return 0
    res = run_child_maybe_asan(machine, b["lib"], {"case": doc["case"], "perturb": doc.get("perturb", 0xA5)}, opts, flavour)
    if isinstance(res, WorkerDeath):
        got = {"oracle": death_class(res.how)[0], "class": death_class(res.how)[1]}
    elif res.get("kind") == "violation":
        got = res["violation"]
    else:
        got = None
    def fam(c):
        c = c.split(":")[0]
        return "death" if c in ("process_killed", "sanitizer_report") else c
    if got and got["oracle"] == want["oracle"] and fam(got["class"]) == fam(want["class"]):
        print("reproduced: %s/%s" % (got["oracle"], got["class"]))
        if isinstance(res, dict) and res.get("violation", {}).get("detail") is not None:
            print(json.dumps(res["violation"]["detail"], indent=1, default=core._json_default)[:4000])
        print("VIOLATION property=%s replay=%s" % (prop, path))
        return 1
    print("not reproduced on this tree (got %s)" % (got,))
    return 0


LAST_SANITIZER_TEXT = [""]


def crash_site(text):
    """(kind, function) of the first sanitizer report in text: the call site that identifies a crash finding.
    The function is the innermost frame that belongs to awkward (a kernel or a libawkward method), not a libstdc++
    helper it was inlined into."""
    import re
    kind = None
    m = re.search(r"ERROR: AddressSanitizer: (\S+)", text)
    if m:
        kind = m.group(1)
        start = m.end()
    else:
        m = re.search(r"(\S+):\d+:\d+: runtime error: ([^\n]+)", text)
        if not m:
            return None
        kind = "ubsan: " + re.sub(r"\d+", "N", m.group(2))[:60]
        start = m.end()
    fn = None
    for fm in re.finditer(r"#\d+ 0x[0-9a-f]+ in ([^\n]+)", text[start:start + 20000]):
        sig = fm.group(1)
        sig = re.split(r" /| \(/", sig)[0]
        head = sig.split("(")[0]
        names = re.findall(r"([A-Za-z_][\w:]*)\s*(?:<[^()]*>)?\s*$", head)
        name = names[-1] if names else head
        if "awkward" in sig and not name.startswith("std::") and not name.startswith("__gnu"):
            if "awkward" in name or "::" in name:
                fn = name
                break
        if name.startswith("aws_"):
            break
    return {"kind": kind, "function": fn}


def run_child_maybe_asan(machine, lib, payload, opts, flavour, timeout=120.0):
    if flavour == "asan" and "libasan" not in os.environ.get("LD_PRELOAD", ""):
        # a sanitizer node needs its runtime preloaded before the interpreter starts
        tmp = os.path.join(buildmod.BUILD, "tmp-replay-%d.json" % os.getpid())
        with open(tmp, "w") as f:
            json.dump({"payload": payload, "opts": opts, "machine": machine.PROP, "lib": lib}, f, default=core._json_default)
        env = asan_env()
        try:
            p = subprocess.run([sys.executable, "-m", "simfw.cli", "--internal-single", tmp], env=env, cwd=core.VERIF,
                               stdout=subprocess.PIPE, stderr=subprocess.PIPE, timeout=timeout * 2)
        except subprocess.TimeoutExpired:
            os.unlink(tmp)
            return WorkerDeath(-1, "timeout")
        os.unlink(tmp)
        if p.returncode == 0 and p.stdout.strip():
            return json.loads(p.stdout.decode().strip().splitlines()[-1])
        LAST_SANITIZER_TEXT[0] = p.stderr.decode(errors="replace")
        log(sanitizer_summary(LAST_SANITIZER_TEXT[0]))
        return WorkerDeath(-1, "exit:%d" % p.returncode)
    return core.run_single_in_child(machine, lib, "case", payload, opts, timeout=timeout)


def sanitizer_summary(text, maxframes=14):
    """the head of a sanitizer report: the error line and the first frames that are not interpreter glue"""
    out = []
    keep = False
    frames = 0
    for ln in text.splitlines():
        if "ERROR: AddressSanitizer" in ln or "runtime error:" in ln or "SUMMARY:" in ln:
            out.append(ln)
            keep = "SUMMARY:" not in ln
            frames = 0
            continue
        if keep and ln.strip().startswith("#"):
            if any(x in ln for x in (" in _Py", " in Py", "ffi", "/lib/x86_64", "in method_", "in cfunction", "in builtin_", "in pymain", "in run_", "in pyrun")):
                continue
            frames += 1
            if frames <= maxframes:
                out.append(ln)
        elif keep and (ln.startswith("0x") or "is located" in ln or "allocated by" in ln or "freed by" in ln):
            out.append(ln)
            frames = 0
    return "\n".join(out) if out else text[-2000:]


def run_asan_capture(machine, lib, payload, opts, timeout=120.0):
    """like run_child_maybe_asan for the sanitizer node, but thread-safe: returns (result, stderr text)"""
    import tempfile
    fd, tmp = tempfile.mkstemp(prefix="tmp-asan-", suffix=".json", dir=buildmod.BUILD)
    with os.fdopen(fd, "w") as f:
        json.dump({"payload": payload, "opts": opts, "machine": machine.PROP, "lib": lib}, f, default=core._json_default)
    try:
        p = subprocess.run([sys.executable, "-m", "simfw.cli", "--internal-single", tmp], env=asan_env(), cwd=core.VERIF,
                           stdout=subprocess.PIPE, stderr=subprocess.PIPE, timeout=timeout * 2)
    except subprocess.TimeoutExpired:
        os.unlink(tmp)
        return WorkerDeath(-1, "timeout"), ""
    os.unlink(tmp)
    text = p.stderr.decode(errors="replace")
    if p.returncode == 0 and p.stdout.strip():
        return json.loads(p.stdout.decode().strip().splitlines()[-1]), text
    return WorkerDeath(-1, "exit:%d" % p.returncode), text


def asan_env():
    env = dict(os.environ)
    # libstdc++ must be loaded together with the sanitizer runtime: its __cxa_throw interceptor is resolved at
    # start-up, and the interpreter itself does not link libstdc++
    cxx = subprocess.run([buildmod.CXX, "-print-file-name=libstdc++.so.6"], stdout=subprocess.PIPE).stdout.decode().strip()
    env["LD_PRELOAD"] = buildmod.asan_runtime() + (" " + cxx if os.path.sep in cxx else "")
    env["ASAN_OPTIONS"] = "detect_leaks=0:exitcode=%d:abort_on_error=0:verify_asan_link_order=0:allocator_may_return_null=1:malloc_fill_byte=203:free_fill_byte=221" % ASAN_EXIT
    env["UBSAN_OPTIONS"] = "halt_on_error=1:exitcode=%d:print_stacktrace=1" % ASAN_EXIT
    return env


# ------------------------------------------------------------------------------------------------- the check
class Check:
    def __init__(self, prop, tier, seed, repo, runs=None, workers=None):
        self.prop = prop
        self.tier = tier
        self.seed = seed
        self.repo = repo
        self.machine = load_machine(prop)
        self.opts = self.machine.tier_opts(tier)
        if os.environ.get("AWSIM_ASAN_RUNS"):        # development aid: a larger slice on the sanitizer node
            self.opts["asan_runs"] = int(os.environ["AWSIM_ASAN_RUNS"])
        if os.environ.get("AWSIM_RUN_TIMEOUT"):      # development aid: exercise the watchdog paths
            self.opts["run_timeout"] = float(os.environ["AWSIM_RUN_TIMEOUT"])
        if runs:
            self.opts["runs"] = runs
        self.workers = workers
        self.t0 = time.time()
        self.notes = []

    def batch(self, lib, indices, opts=None, workers=None):
        return core.run_batch(self.machine, lib, indices, self.seed, self.prop, opts or self.opts,
                              workers=workers or self.workers)

    # ---- determinism self-test: same seeds, different processes / worker counts / hash seed
    def determinism(self, lib, n):
        idx = list(range(n))
        o = dict(self.opts)
        o["perturb"] = 0x5A
        a, da = self.batch(lib, idx, o, workers=16)
        b, db = self.batch(lib, idx, o, workers=1 if n <= 256 else 3)
        mism = [i for i in idx if i in a and i in b and a[i].get("digest") != b[i].get("digest")]
        pairs = len([i for i in idx if i in a and i in b])
        # fresh interpreter with another PYTHONHASHSEED
        env = dict(os.environ)
        env["PYTHONHASHSEED"] = "12345"
        sub = idx[: min(n, 128)]
        tmp = os.path.join(buildmod.BUILD, "tmp-det-%d.json" % os.getpid())
        with open(tmp, "w") as f:
            json.dump({"prop": self.prop, "seed": self.seed, "indices": sub, "opts": o, "lib": lib}, f)
        p = subprocess.run([sys.executable, "-m", "simfw.cli", "--internal-digests", tmp], env=env, cwd=core.VERIF,
                           stdout=subprocess.PIPE, stderr=subprocess.PIPE)
        os.unlink(tmp)
        if p.returncode != 0:
            raise RuntimeError("determinism child failed: " + p.stderr.decode(errors="replace")[-2000:])
        c = json.loads(p.stdout.decode().strip().splitlines()[-1])
        for i in sub:
            if i in a and str(i) in c:
                pairs += 1
                if a[i].get("digest") != c[str(i)]:
                    mism.append(i)
        return {"pairs": pairs, "mismatches": sorted(set(mism)),
                "how": "same run seeds executed on 16 workers, on %d worker(s), and in a fresh interpreter with "
                       "PYTHONHASHSEED=12345; sha256 of the full event log compared" % (1 if n <= 256 else 3)}

    # ---- allocator-fill cross-check (oracle I4 / 4.5): same seeds under three fill bytes
    def perturb_check(self, lib, n):
        idx = list(range(n))
        digs = []
        for b in (0x11, 0xA5, 0xFF):
            o = dict(self.opts)
            o["perturb"] = b
            r, _ = self.batch(lib, idx, o)
            digs.append(r)
        diff = [i for i in idx if len({d[i].get("digest") for d in digs if i in d}) > 1]
        return {"pairs": 2 * n, "differences": diff}


def run_check(prop, tier, seed, repo, runs=None, skip_selftest=False, mutants=False, no_shrink=False):
    ck = Check(prop, tier, seed, repo, runs)
    machine, opts = ck.machine, ck.opts
    if no_shrink:
        opts["no_shrink"] = True
        opts["shrink_per_class"] = 1
        opts["max_deaths"] = 6
    known = load_known(prop)
    try:
        b = buildmod.build(repo, "plain")
    except buildmod.BuildError as e:
        log("BUILD FAILED\n" + str(e))
        return 2
    lib = b["lib"]
    log("[%s] built %s in %.1fs (%d compiled, %d cached)" % (prop, os.path.basename(lib), b["seconds"], b["compiled"], b["cached"]))
    evidence = {"property_id": prop, "tier": tier, "seed": seed, "level": LEVEL[prop], "coverage": {}, "assumptions":
                machine.ASSUMPTIONS, "wall_s": 0.0, "violations": 0}
    cov = evidence["coverage"]

    # 1. determinism
    if not skip_selftest:
        det = ck.determinism(lib, opts.get("determinism_sample", 64))
        cov["determinism"] = det
        log("[%s] determinism: %d pairs, %d mismatches" % (prop, det["pairs"], len(det["mismatches"])))
        if det["mismatches"]:
            log("HARNESS-ERROR: event logs differ between executions of the same run seed: %s" % det["mismatches"][:10])
            write_evidence(evidence, ck)
            return 2

    # 2. main exploration
    nruns = opts["runs"]
    indices = list(range(nruns))
    stats = Stats(machine)
    t1 = time.time()
    results, deaths = ck.batch(lib, indices)
    for i in indices:
        if i in results:
            stats.add(results[i])
    main_wall = time.time() - t1
    log("[%s] %d runs in %.1fs (%.0f runs/s): %s" % (prop, len(results), main_wall, len(results) / max(main_wall, 1e-9), stats.kinds))
    if stats.slowest[0] > 5.0:
        log("[%s] slowest run: index %s, %.1fs" % (prop, stats.slowest[1], stats.slowest[0]))

    # 2b. thorough: the same runs (a slice) on the sanitizer node
    asan_lib = None
    if opts.get("asan_runs"):
        try:
            ab = buildmod.build(repo, "asan")
            asan_lib = ab["lib"]
            log("[%s] built asan node in %.1fs" % (prop, ab["seconds"]))
            ares, adeaths = run_asan_batch(ck, asan_lib, list(range(opts["asan_runs"])))
            cov["asan"] = {"runs": len(ares), "deaths": len(adeaths)}
            for i, r in ares.items():
                if r.get("kind") == "harness_error":
                    stats.harness_errors.append((i, r.get("trace")))
                elif r.get("kind") == "violation" and (i not in results or results[i].get("kind") != "violation"):
                    results[i] = r
                    stats.violations.append(r)
            for d in adeaths:
                if all(x.index != d.index for x in deaths):
                    d.asan = True
                    deaths.append(d)
        except buildmod.BuildError as e:
            log("BUILD FAILED (asan)\n" + str(e))
            return 2

    # anomalies: results that a worker process whose heap an *earlier* run has silently corrupted can produce - a Python
    # exception inside the harness, a death or a violation that does not happen again when the run is executed alone.
    # They are traced back (step 5b): the runs that preceded them on the same worker are executed on the sanitizer node.
    anomalies = []     # (index, what)
    for i, tr in stats.harness_errors[:64]:
        anomalies.append((i, "harness exception"))

    # 3. allocator fill cross-check
    if not skip_selftest and opts.get("perturb_sample"):
        pc = ck.perturb_check(lib, opts["perturb_sample"])
        cov["perturb_pairs"] = pc["pairs"]
        cov["perturb_differences"] = len(pc["differences"])
        for i in pc["differences"][:3]:
            case = regenerate(machine, seed, prop, i, opts)
            v = {"oracle": "memory", "class": "result_depends_on_allocator_fill", "detail": None, "at": None}
            stats.violations.append({"i": i, "kind": "violation", "violation": v, "case": case, "seed": core.run_seed(seed, prop, i), "noshrink": True})

    # 4. deaths: reproduce alone; find the crash site on the sanitizer node; known findings are keyed on the site.
    #    Only a death that matches no known finding is minimised (and then located again).
    reports = []     # (index, case, violation-record, flavour, perturb)
    matched = {}

    def locate(case, per, how):
        nonlocal asan_lib
        detail = {"died": how}
        if how == "timeout":
            return detail
        try:
            if asan_lib is None:
                asan_lib = buildmod.build(repo, "asan")["lib"]
            r2, text = run_asan_capture(machine, asan_lib, {"case": case, "perturb": per}, opts)
            if isinstance(r2, WorkerDeath):
                detail["site"] = crash_site(text)
                detail["report"] = sanitizer_summary(text, 8)[:3000]
            else:
                detail["site"] = None
                detail["note"] = "dies on the plain node but not under the sanitizer"
        except buildmod.BuildError:
            detail["site"] = None
        return detail

    def analyse_death(d):
        case = regenerate(machine, seed, prop, d.index, opts)
        if case is None:
            return None
        per = 1 + (core.run_seed(seed, prop, d.index) >> 8) % 254
        if getattr(d, "asan", False):
            res, text = run_asan_capture(machine, asan_lib, {"case": case, "perturb": per}, opts)
            if not isinstance(res, WorkerDeath):
                return ("note", "run %d died under the sanitizer in the batch but not alone" % d.index)
            orc, cls = death_class(res.how)
            v = {"oracle": orc, "class": cls, "at": None,
                 "detail": {"died": res.how, "site": crash_site(text), "report": sanitizer_summary(text, 8)[:3000]}}
            return ("report", d.index, case, v, "asan", per)
        o = dict(opts)
        if d.how == "timeout":
            o["run_timeout"] = opts.get("run_timeout", 20.0) * 5
        res = core.run_single_in_child(machine, lib, "case", {"case": case, "perturb": per}, o, timeout=o.get("run_timeout", 20.0))
        if not isinstance(res, WorkerDeath):
            return ("anomaly", d.index, "died (%s) in the batch but not alone" % d.how)
        orc, cls = death_class(res.how)
        v = {"oracle": orc, "class": cls, "at": None, "detail": locate(case, per, res.how)}
        if match_known(machine, known, case, v) is not None:
            return ("report", d.index, case, v, "plain", per)
        if opts.get("no_shrink"):
            return ("report", d.index, case, v, "plain", per)
        case2, how, n = shrink_death(machine, lib, case, res.how, opts, per)
        orc, cls = death_class(how)
        v = {"oracle": orc, "class": cls, "at": None, "detail": locate(case2, per, how)}
        return ("report", d.index, case2, v, "plain", per)

    maxd = opts.get("max_deaths", 40)
    if deaths:
        if asan_lib is None:
            try:
                asan_lib = buildmod.build(repo, "asan")["lib"]
            except buildmod.BuildError as e:
                log("BUILD FAILED (asan)\n" + str(e))
                return 2
        import concurrent.futures
        with concurrent.futures.ThreadPoolExecutor(max_workers=8) as ex:
            for out in ex.map(analyse_death, deaths[:maxd]):
                if out is None:
                    continue
                if out[0] == "note":
                    ck.notes.append(out[1])
                elif out[0] == "anomaly":
                    anomalies.append((out[1], out[2]))
                else:
                    reports.append(out[1:])
    if len(deaths) > maxd:
        ck.notes.append("%d more worker deaths not analysed individually" % (len(deaths) - maxd))

    # 5. violations: those that match a known finding as they are need no minimisation; the others are minimised
    #    (in parallel, each inside its own child process) and matched again
    todo = []
    for r in stats.violations:
        e = match_known(machine, known, r["case"], r["violation"])
        if e is not None:
            matched.setdefault(e["id"], e)
            if os.environ.get("AWSIM_SAVE_KNOWN"):   # development aid
                os.makedirs(os.environ["AWSIM_SAVE_KNOWN"], exist_ok=True)
                with open(os.path.join(os.environ["AWSIM_SAVE_KNOWN"], "%s-%s-%s.json" % (prop, e["id"], r.get("i"))), "w") as f:
                    json.dump({"property": prop, "case": r["case"], "violation": r["violation"], "flavour": "plain",
                               "perturb": 1 + (r.get("seed", 0) >> 8) % 254}, f, default=core._json_default)
        else:
            todo.append(r)
    by_class = {}
    for r in todo:
        v = r["violation"]
        by_class.setdefault((v["oracle"], v["class"]), []).append(r)
    chosen = []
    for key in sorted(by_class):
        group = by_class[key]
        k = opts.get("shrink_per_class", 3)
        chosen.extend(group[:k])
        if len(group) > k:
            ck.notes.append("%d further runs violated %s/%s (not minimised)" % (len(group) - k, key[0], key[1]))

    def shrink_one(r):
        per = 1 + (r.get("seed", 0) >> 8) % 254
        if r.get("noshrink"):
            return ("report", r["i"], r["case"], r["violation"], "plain", per)
        # confirm first: the same case alone in a fresh process
        res = core.run_single_in_child(machine, lib, "case", {"case": r["case"], "perturb": per}, opts,
                                       timeout=opts.get("run_timeout", 20.0) * 3)
        if isinstance(res, WorkerDeath):
            orc, cls = death_class(res.how)
            v = {"oracle": orc, "class": cls, "at": None, "detail": locate(r["case"], per, res.how)}
            return ("report", r["i"], r["case"], v, "plain", per)
        if res.get("kind") != "violation":
            return ("anomaly", r["i"], "violated %s/%s in the batch but not alone" % (r["violation"]["oracle"], r["violation"]["class"]))
        v0 = res["violation"]
        if opts.get("no_shrink"):
            return ("report", r["i"], r["case"], v0, "plain", per)
        case, v, n = shrink_violation(machine, lib, r["case"], v0, opts, per)
        return ("report", r["i"], case, v, "plain", per)
    if chosen:
        import concurrent.futures
        with concurrent.futures.ThreadPoolExecutor(max_workers=8) as ex:
            for out in ex.map(shrink_one, chosen):
                if out[0] == "anomaly":
                    anomalies.append((out[1], out[2]))
                else:
                    reports.append(out[1:])

    # 5b. trace anomalies back to the run that poisoned the worker
    unexplained = []
    if anomalies:
        W = ck.workers or int(os.environ.get("AWSIM_WORKERS", os.cpu_count() or 4))
        W = max(1, min(W, len(indices)))
        before = set()
        for i, what in anomalies:
            if i is None:
                continue
            before.update(list(range(i % W, i + 1, W))[-opts.get("traceback_runs", 4000):])
        log("[%s] %d anomalies (%s ...): executing the %d runs that preceded them on their workers on the sanitizer node"
            % (prop, len(anomalies), "run %s %s" % anomalies[0], len(before)))
        found = []
        try:
            if asan_lib is None:
                asan_lib = buildmod.build(repo, "asan")["lib"]
            ares, adeaths = run_asan_batch(ck, asan_lib, sorted(before))
            for d in adeaths:
                d.asan = True
                out = analyse_death(d)
                if out and out[0] == "report":
                    reports.append(out[1:])
                    found.append(d.index)
        except buildmod.BuildError as e:
            log("BUILD FAILED (asan)\n" + str(e))
            return 2
        cov["anomalies"] = {"count": len(anomalies), "traced_runs": len(before), "memory_errors_found": len(found)}
        for i, what in anomalies:
            culprits = [j for j in found if i is not None and j % W == i % W and j <= i]
            if culprits:
                ck.notes.append("run %s %s: explained by the memory error of run %d on the same worker" % (i, what, max(culprits)))
            elif i is not None and what.startswith("died (timeout)"):
                # the watchdog is the one real clock of the harness. The run finishes alone and nothing before it on its
                # worker is a memory error: replay the worker's history once more, in order, in one fresh process, with
                # five times the time limit. A hang that belongs to the simulated behaviour repeats (one seed is one
                # execution); one that does not was wall-clock time lost to the load on the machine.
                hist = list(range(i % W, i + 1, W))[-opts.get("traceback_runs", 4000):]
                o2 = dict(opts)
                o2["run_timeout"] = opts.get("run_timeout", 20.0) * 5
                _, d2 = core.run_batch(machine, lib, hist, seed, prop, o2, workers=1)
                if any(d.index == i for d in d2):
                    unexplained.append((i, what + ", and again when its worker's history is replayed in a fresh process"))
                else:
                    ck.notes.append("run %s %s: finishes alone and when the %d runs of its worker's history are replayed in a "
                                    "fresh process with 5x the time limit; no memory error before it - wall-clock time lost to "
                                    "machine load, not behaviour of the simulated run" % (i, what, len(hist)))
                    cov["anomalies"]["load_timeouts"] = cov["anomalies"].get("load_timeouts", 0) + 1
            elif i is not None and what.startswith("violated "):
                # the run violates the property in the batch, not alone, and nothing before it on its worker is a memory
                # error: replay the worker's history in order in one fresh process. If the violation is there again it is
                # behaviour (one seed is one execution) - state that the library keeps across calls - and it is reported
                # with the shortest suffix of the history that still shows it.
                hist = list(range(i % W, i + 1, W))[-opts.get("traceback_runs", 4000):]
                res2, _ = core.run_batch(machine, lib, hist, seed, prop, dict(opts), workers=1)
                r2 = res2.get(i)
                if r2 is not None and r2.get("kind") == "violation":
                    keep = hist
                    n = 1
                    while n < len(hist):
                        sub = hist[-(n + 1):]
                        res3, _ = core.run_batch(machine, lib, sub, seed, prop, dict(opts), workers=1)
                        r3 = res3.get(i)
                        if r3 is not None and r3.get("kind") == "violation":
                            keep, r2 = sub, r3
                            break
                        n *= 2
                    v = {"oracle": "determinism", "class": "outcome_depends_on_earlier_calls_in_the_process", "at": None,
                         "detail": {"violation_in_context": r2["violation"], "alone": "no violation",
                                    "history_indices": keep, "history_verif_seed": seed, "tier": tier}}
                    reports.append((i, r2["case"], v, "plain", r2.get("perturb", 0xA5)))
                    cov["anomalies"]["history_dependent"] = cov["anomalies"].get("history_dependent", 0) + 1
                else:
                    unexplained.append((i, what))
            else:
                unexplained.append((i, what))

    # 6. regression replays of repaired defects: must not come back
    regress = run_regressions(prop, machine, lib, opts)
    cov["regression_replays"] = {"run": regress["run"], "reproduced": len(regress["reproduced"])}
    for path, case, v in regress["reproduced"]:
        reports.append((None, case, v, "plain", 0xA5))
    if asan_lib is not None:
        # the memory errors among them need not kill a plain process: the same replays on the sanitizer node
        ra = run_regressions(prop, machine, asan_lib, opts, flavour="asan")
        cov["regression_replays"]["run_on_sanitizer_node"] = ra["run"]
        cov["regression_replays"]["reproduced"] += len(ra["reproduced"])
        for path, case, v in ra["reproduced"]:
            if all(c is not case for _, c, _ in regress["reproduced"]):
                reports.append((None, case, v, "asan", 0xA5))

    # 7. verdict
    exit_code = 0
    nviol = 0
    for index, case, v, flav, per in reports:
        e = match_known(machine, known, case, v)
        if e is not None:
            matched.setdefault(e["id"], e)
            if os.environ.get("AWSIM_SAVE_KNOWN"):   # development aid: keep the cases that matched a known finding
                os.makedirs(os.environ["AWSIM_SAVE_KNOWN"], exist_ok=True)
                with open(os.path.join(os.environ["AWSIM_SAVE_KNOWN"], "%s-%s-%s.json" % (prop, e["id"], index)), "w") as f:
                    json.dump({"property": prop, "case": case, "violation": v, "flavour": flav, "perturb": per}, f)
            continue
        nviol += 1
        path = write_replay(prop, seed, index, core.run_seed(seed, prop, index) if index is not None else None,
                            flav, per, b["fingerprint"], case, v, machine)
        print("VIOLATION property=%s replay=%s" % (prop, path))
        log("  %s/%s  %s" % (v["oracle"], v["class"], json.dumps(machine.describe(case), default=core._json_default)[:600]))
        exit_code = 1
    # unminimised violations of a class whose minimised members all matched a known finding are attributed to it;
    # a class with any unmatched member has already produced a VIOLATION line above.
    for e in matched.values():
        print("KNOWN-FINDING: property=%s %s" % (prop, e["what"]))
    evidence["violations"] = nviol

    if unexplained and nviol == 0:
        # results that do not repeat and that no memory error explains: the harness, not the property, is in doubt
        for i, what in unexplained[:10]:
            log("HARNESS-ERROR: run %s %s, and no earlier run on its worker fails under the sanitizer" % (i, what))
        if stats.harness_errors:
            log(str(stats.harness_errors[0][1]))
        evidence["violations"] = nviol
        write_evidence(evidence, ck)
        return 2
    for i, what in unexplained[:10]:
        # the property is violated in any case (VIOLATION lines above); these are most likely more of its consequences
        ck.notes.append("run %s %s; not traced to a memory error" % (i, what))
    if opts.get("_aborted_after_deaths"):
        ck.notes.append("the batch was stopped after %d worker deaths" % opts["_aborted_after_deaths"])

    # 8. mutants (sensitivity self-test)
    if (mutants or opts.get("mutants")) and not os.environ.get("AWSIM_NO_MUTANTS"):     # (development aid)
        from . import mutants as mut
        ms = mut.run_catalogue(prop, repo, seed, log=log)
        cov["mutants"] = {k: v for k, v in ms.items() if k != "details"}
        cov["mutants"]["each"] = [{k: r.get(k) for k in ("id", "source", "status", "wall_s", "note")} for r in ms["details"]]
        cov["sensitivity_ok"] = not ms["survived"] and not ms["errors"]
        log("[%s] mutants: %d run, %d caught, survived %s, stale %s" % (prop, ms["run"], ms["caught"], ms["survived"], ms["stale"]))

    stats.fill(cov, main_wall)
    cov["known_findings_matched"] = sorted(matched)
    cov["notes"] = ck.notes
    cov["components"] = machine.COMPONENTS
    cov["code_fingerprint"] = b["fingerprint"]
    cov["seeds"] = {"VERIF_SEED": seed, "run_index_range": [0, nruns - 1]}
    cov["reach_ok"] = all(stats.probes.get(p, 0) > 0 for p in machine.REQUIRED_PROBES.get(tier, []))
    cov["probes_missing"] = [p for p in machine.REQUIRED_PROBES.get(tier, []) if stats.probes.get(p, 0) == 0]
    write_evidence(evidence, ck)
    log("[%s] %s: exit %d, wall %.1fs" % (prop, tier, exit_code, time.time() - ck.t0))
    return exit_code


def regenerate(machine, seed, prop, index, opts):
    rng = random.Random(core.run_seed(seed, prop, index))
    try:
        return machine.generate(rng, opts)
    except core.Discard:
        return None


def run_regressions(prop, machine, lib, opts, flavour="plain"):
    d = core.REGRESSION
    out = {"run": 0, "reproduced": []}
    if not os.path.isdir(d):
        return out
    from .node import Node
    for name in sorted(os.listdir(d)):
        if not name.startswith(prop + "-") or not name.endswith(".json"):
            continue
        with open(os.path.join(d, name)) as f:
            doc = json.load(f)
        payload = {"case": doc["case"], "perturb": doc.get("perturb", 0xA5)}
        if flavour == "asan":
            res = run_child_maybe_asan(machine, lib, payload, opts, "asan", timeout=opts.get("run_timeout", 20.0) * 3)
        else:
            res = core.run_single_in_child(machine, lib, "case", payload, opts, timeout=opts.get("run_timeout", 20.0))
        out["run"] += 1
        if isinstance(res, WorkerDeath):
            orc, cls = death_class(res.how)
            out["reproduced"].append((name, doc["case"], {"oracle": orc, "class": cls, "detail": {"regression": name}, "at": None}))
        elif res.get("kind") == "violation":
            v = res["violation"]
            v["detail"] = {"regression": name, "detail": v.get("detail")}
            out["reproduced"].append((name, doc["case"], v))
    return out


def run_asan_batch(ck, asan_lib, indices):
    tmp = os.path.join(buildmod.BUILD, "tmp-asan-%d.json" % os.getpid())
    outp = tmp + ".out"
    with open(tmp, "w") as f:
        json.dump({"prop": ck.prop, "seed": ck.seed, "indices": indices, "opts": ck.opts, "lib": asan_lib, "out": outp}, f)
    p = subprocess.run([sys.executable, "-m", "simfw.cli", "--internal-batch", tmp], env=asan_env(), cwd=core.VERIF,
                       stdout=subprocess.PIPE, stderr=subprocess.PIPE)
    os.unlink(tmp)
    if p.returncode != 0 or not os.path.exists(outp):
        raise RuntimeError("asan batch driver failed: " + p.stderr.decode(errors="replace")[-3000:])
    with open(outp) as f:
        d = json.load(f)
    os.unlink(outp)
    res = {int(k): v for k, v in d["results"].items()}
    deaths = [WorkerDeath(i, how) for i, how in d["deaths"]]
    return res, deaths


class Stats:
    def __init__(self, machine):
        self.machine = machine
        self.kinds = {}
        self.violations = []
        self.harness_errors = []
        self.slowest = (0.0, None)
        self.faults = {}
        self.probes = {}
        self.states = set()
        self.sigs = set()
        self.nontrivial = set()
        self.ticks = 0
        self.events = 0
        self.samples = []
        self.n = 0

    def add(self, r):
        self.n += 1
        if r.get("dt", 0) > self.slowest[0]:
            self.slowest = (r["dt"], r.get("i"))
        k = r.get("kind")
        self.kinds[k] = self.kinds.get(k, 0) + 1
        if k == "harness_error":
            self.harness_errors.append((r.get("i"), r.get("trace")))
            return
        if k == "violation":
            self.violations.append(r)
        for f, c in (r.get("faults") or {}).items():
            self.faults[f] = self.faults.get(f, 0) + c
        for f, c in (r.get("probes") or {}).items():
            self.probes[f] = self.probes.get(f, 0) + c
        for s in r.get("states") or []:
            self.states.add(json.dumps(s))
        self.ticks += r.get("ticks", 0)
        self.events += r.get("events", 0)
        sig = r.get("sig")
        if sig:
            self.sigs.add(sig[0])
            if sig[1] or (r.get("faults") or {}):
                self.nontrivial.add(sig[0])

    def fill(self, cov, wall):
        cov["evaluations"] = self.n
        cov["distinct_nontrivial"] = len(self.nontrivial)
        cov["distinct_schedules"] = len(self.sigs)
        cov["rule"] = self.machine.RULE
        cov["run_kinds"] = self.kinds
        cov["fault_counts_fired"] = dict(sorted(self.faults.items()))
        cov["probes"] = dict(sorted(self.probes.items()))
        cov["distinct_states"] = len(self.states)
        cov["sim_ticks"] = self.ticks
        cov["events_logged"] = self.events
        cov["runs_per_hour"] = int(self.n / max(wall, 1e-9) * 3600)
        cov["main_batch_wall_s"] = round(wall, 2)


def write_evidence(evidence, ck):
    cov = evidence["coverage"]
    if "samples" not in cov:
        cov["samples"] = sample_cases(ck)
    cov.setdefault("evaluations", 0)
    cov.setdefault("distinct_nontrivial", 0)
    cov.setdefault("rule", ck.machine.RULE)
    evidence["wall_s"] = round(time.time() - ck.t0, 2)
    os.makedirs(core.EVIDENCE, exist_ok=True)
    path = os.path.join(core.EVIDENCE, ck.prop + ".json")
    tmp = path + ".tmp"
    with open(tmp, "w") as f:
        json.dump(evidence, f, indent=1, default=core._json_default, sort_keys=True)
    os.replace(tmp, path)


def sample_cases(ck):
    out = []
    for i in range(200):
        if len(out) >= 3:
            break
        case = regenerate(ck.machine, ck.seed, ck.prop, i, ck.opts)
        if case is not None:
            d = ck.machine.describe(case)
            d["run_index"] = i
            out.append(d)
    return out


# ------------------------------------------------------------------------------------------------- entry points
def internal_digests(path):
    with open(path) as f:
        d = json.load(f)
    machine = load_machine(d["prop"])
    res, deaths = core.run_batch(machine, d["lib"], d["indices"], d["seed"], d["prop"], d["opts"], workers=4)
    print(json.dumps({str(i): r.get("digest") for i, r in res.items()}))
    return 0


def internal_batch(path):
    with open(path) as f:
        d = json.load(f)
    machine = load_machine(d["prop"])
    res, deaths = core.run_batch(machine, d["lib"], d["indices"], d["seed"], d["prop"], d["opts"])
    with open(d["out"], "w") as f:
        json.dump({"results": {str(i): r for i, r in res.items()}, "deaths": [[x.index, x.how] for x in deaths]}, f,
                  default=core._json_default)
    return 0


def internal_single(path):
    with open(path) as f:
        d = json.load(f)
    machine = load_machine(d["machine"])
    from .node import Node
    os.dup2(os.open(os.devnull, os.O_WRONLY), 1) if False else None
    node = Node(d["lib"])
    res = core.execute_case(machine, node, d["payload"]["case"], d["opts"], perturb=d["payload"].get("perturb", 0xA5))
    sys.stdout.write("\n" + json.dumps(res, default=core._json_default) + "\n")
    return 0


def main(argv=None):
    argv = sys.argv[1:] if argv is None else argv
    if argv and argv[0] == "--internal-digests":
        return internal_digests(argv[1])
    if argv and argv[0] == "--internal-batch":
        return internal_batch(argv[1])
    if argv and argv[0] == "--internal-single":
        return internal_single(argv[1])
    ap = argparse.ArgumentParser(prog="check")
    ap.add_argument("property")
    ap.add_argument("--tier", default=os.environ.get("VERIF_TIER", "quick"), choices=["quick", "thorough"])
    ap.add_argument("--seed", type=int, default=None)
    ap.add_argument("--runs", type=int, default=None)
    ap.add_argument("--replay", default=None)
    ap.add_argument("--flavour", default="plain", choices=["plain", "asan"])
    ap.add_argument("--repo", default=os.environ.get("AWSIM_REPO", "/repo"))
    ap.add_argument("--mutants", action="store_true")
    ap.add_argument("--no-shrink", action="store_true", help="report violations as found (used for the mutant runs, where only the verdict matters)")
    ap.add_argument("--no-selftest", action="store_true")
    a = ap.parse_args(argv)
    if a.property not in MACHINES:
        log("unknown property %s (claimed: %s)" % (a.property, ", ".join(sorted(MACHINES))))
        return 2
    seed = a.seed
    if seed is None:
        env = os.environ.get("VERIF_SEED")
        seed = int(env) if env not in (None, "") else DEFAULT_SEED[a.tier]
    try:
        if a.replay:
            return do_replay(a.property, a.replay, a.flavour, a.repo)
        return run_check(a.property, a.tier, seed, a.repo, runs=a.runs, skip_selftest=a.no_selftest, mutants=a.mutants, no_shrink=a.no_shrink)
    except Exception:
        log("HARNESS-ERROR\n" + traceback.format_exc())
        return 2


if __name__ == "__main__":
    sys.exit(main())
