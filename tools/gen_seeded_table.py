"""Regenerates the table of seeded changes in DESIGN.md (between the SEEDED-TABLE markers) from seeded/*/meta.json and
the last full mutant runs (seeded/RESULTS-<P>.json)."""
import glob
import json
import os
import re

SEEDED = "/verif/seeded"
results = {}
for f in glob.glob(os.path.join(SEEDED, "RESULTS-*.json")):
    d = json.load(open(f))
    for e in d["each"]:
        if e["source"] == "seeded":
            results.setdefault(e["id"], []).append((d["property"], e))
rows = []


def key(name):
    m = re.match(r"(C\d+)-(\d+)-", name)
    return (m.group(1), int(m.group(2)))


counts = {"caught": 0, "survived": 0, "outside_property": 0, "not run": 0}
for name in sorted((n for n in os.listdir(SEEDED) if os.path.isdir(os.path.join(SEEDED, n))), key=key):
    meta = json.load(open(os.path.join(SEEDED, name, "meta.json")))
    by = meta.get("checked_by", [meta["property"]])
    cells = []
    status = "not run"
    for prop, e in results.get(name, []):
        classes = sorted(set(re.match(r"\s+(\S+/\S+)", ln).group(1) for ln in e.get("first_reports") or []
                             if re.match(r"\s+(\S+/\S+)", ln)))
        if e["status"] == "caught":
            status = "caught"
            cells.append("%s: %s" % (prop, ", ".join("`%s`" % c for c in classes) or "caught"))
        elif status != "caught":
            status = e["status"]
            cells.append("%s: **%s**" % (prop, "not reported" if e["status"] == "outside_property" else e["status"]))
    if meta.get("not_caught_reason"):
        cells.append(meta["not_caught_reason"])
    counts[status if status in counts else "survived"] += 1
    k = key(name)
    rows.append("| %s-%d %s | %s | %s |" % (k[0], k[1], meta["title"].replace("|", "\\|"), "/".join(by), "; ".join(cells) or "not run"))
table = "| seeded change | decided by | violation classes reported (oracle/class) |\n|---|---|---|\n" + "\n".join(rows) + "\n"
p = "/verif/DESIGN.md"
s = open(p).read()
a, b = "<!-- SEEDED-TABLE-BEGIN -->\n", "<!-- SEEDED-TABLE-END -->\n"
i, j = s.index(a) + len(a), s.index(b)
s = s[:i] + table + s[j:]
open(p, "w").write(s)
print(len(rows), "rows", counts)
