"""Development aid (not a registered check): compares reducers / sort / argsort over every axis of random jagged
integer arrays (depth 2 and 3, with empty lists) against a direct Python reference. Used to validate repairs of
the nonlocal reduction/sort pipeline (findings F22, F26).   usage: reduce_ref.py [runs] [seed]"""
import json
import random
import sys

sys.path.insert(0, "/verif")
from simfw import build                      # noqa: E402
from simfw.node import Node, NodeError       # noqa: E402
from simfw.models import value_model as vm   # noqa: E402


def gen(r, depth, maxlen=4, none=False, top=True):
    if none and not top and r.random() < 0.15:
        return None
    if depth == 0:
        return r.randrange(-5, 9)
    n = r.choice([0, 0, 1, 2, 3, maxlen])
    return [gen(r, depth - 1, maxlen, none, False) for _ in range(n)]


def ref_reduce(x, axis, depth, red, mask):
    """x nested lists of ints of uniform depth; reduce over `axis`"""
    if axis == 0:
        return combine(list(enumerate(x)), depth - 1, mask)
    return [None if s is None else ref_reduce(s, axis - 1, depth - 1, red, mask) for s in x]


def combine(items, d, mask):
    """items: [(position along the reduced axis, sub)] with sub of depth d, combined position by position"""
    items = [(i, s) for i, s in items if s is not None]
    if d == 0:
        return red1(items, mask)
    n = max([len(s) for _, s in items], default=0)
    return [combine([(i, s[j]) for i, s in items if len(s) > j], d - 1, mask) for j in range(n)]


def red1(pairs, mask):
    name = red1.name
    vals = [v for _, v in pairs]
    if not vals and mask:
        return None
    if name == "count":
        return len(vals)
    if name == "sum":
        return sum(vals)
    if name in ("min", "max"):
        if not vals:
            return 2**63 - 1 if name == "min" else -2**63
        return min(vals) if name == "min" else max(vals)
    if name in ("argmin", "argmax"):
        if not vals:
            return -1
        best = min(vals) if name == "argmin" else max(vals)
        for i, v in pairs:
            if v == best:
                return i
    raise AssertionError(name)


RED = {"count": 0, "sum": 2, "min": 6, "max": 7, "argmin": 8, "argmax": 9}


def ref_sort(x, axis, depth, argsort, ascending):
    """sort along axis: the items found at the same position below the axis are sorted among themselves; argsort
    gives the position along the axis the item came from"""
    import copy
    out = copy.deepcopy(x)

    def comb(items, d):
        # items: [(pos, src_container, dst_container, idx)]; value = src_container[idx], of depth d
        if d == 0:
            vals = [(src[idx], pos) for pos, src, dst, idx in items]
            # None items go last in either direction
            order = sorted(range(len(vals)), key=lambda q: (vals[q][0] is None, 0 if vals[q][0] is None else
                                                            (vals[q][0] if ascending else -vals[q][0])))
            for slot, q in zip(items, order):
                slot[2][slot[3]] = vals[q][1] if argsort else vals[q][0]
            return
        items = [it for it in items if it[1][it[3]] is not None]          # a None list takes no part
        n = max([len(src[idx]) for _, src, dst, idx in items], default=0)
        for j in range(n):
            comb([(pos, src[idx], dst[idx], j) for pos, src, dst, idx in items if len(src[idx]) > j], d - 1)

    def walk(src, dst, a, d):
        if a == 0:
            comb([(i, src, dst, i) for i in range(len(src))], d - 1)
        else:
            for s, t in zip(src, dst):
                if s is not None:
                    walk(s, t, a - 1, d - 1)
    walk(x, out, axis, depth)
    return out


SHOW = 1
NONE = len(sys.argv) > 3 and sys.argv[3] == 'none'


def main():
    runs = int(sys.argv[1]) if len(sys.argv) > 1 else 2000
    seed = int(sys.argv[2]) if len(sys.argv) > 2 else 1
    node = Node(build.build("/repo", "plain")["lib"])
    r = random.Random(seed)
    bad = 0
    done = 0
    cats = {}
    for it in range(runs):
        depth = r.choice([2, 3, 4])
        x = gen(r, depth, maxlen=(4 if depth < 4 else 3), none=NONE)
        node.reset()
        try:
            h = node.fromjson(0, json.dumps(x).encode())
        except NodeError:
            continue
        # the builder gives unknown type for all-empty input: skip those
        if b"unknown" in node.text(h, 1):
            continue
        for axis in range(depth):
            for name, code in RED.items():
                for mask in (False, True):
                    red1.name = name
                    want = ref_reduce(x, axis, depth, None, mask)
                    try:
                        o = node.op(9, h, iargs=[code, axis, 1 if mask else 0, 0])
                        got = vm.to_jsonable(vm.loads(node.dump(o)))
                    except NodeError as e:
                        got = "ERR %s" % e
                    done += 1
                    if got != want:
                        bad += 1
                        c = ("reduce", name, "axis%d/depth%d" % (axis, depth), "ERR" if isinstance(got, str) else "value")
                        cats[c] = cats.get(c, 0) + 1
                        if cats[c] <= SHOW:
                            print("REDUCE MISMATCH", name, "axis", axis, "mask", mask, "\n  x   ", x, "\n  want", want, "\n  got ", got)
            for argsort in ((False,) if NONE else (False, True)):
                for asc in (True, False):
                    want = ref_sort(x, axis, depth, argsort, asc)
                    try:
                        o = node.op(11 if argsort else 10, h, iargs=[axis, 1 if asc else 0, 1])
                        got = vm.to_jsonable(vm.loads(node.dump(o)))
                    except NodeError as e:
                        got = "ERR %s" % e
                    done += 1
                    if got != want:
                        bad += 1
                        c = ("argsort" if argsort else "sort", "axis%d/depth%d" % (axis, depth), "ERR" if isinstance(got, str) else "value")
                        cats[c] = cats.get(c, 0) + 1
                        if cats[c] <= SHOW:
                            print("SORT MISMATCH", "argsort" if argsort else "sort", "axis", axis, "asc", asc, "\n  x   ", x, "\n  want", want, "\n  got ", got)
    for c in sorted(cats):
        print("  ", c, cats[c])
    print("compared", done, "mismatches", bad)
    return 1 if bad else 0


if __name__ == "__main__":
    sys.exit(main())
