"""Regenerates the table of repaired defects in DESIGN.md (between the FIXED-TABLE markers) from known_findings.json."""
import json
import re

d = json.load(open("/verif/known_findings.json"))
rows = []
for e in sorted(d["findings"], key=lambda e: int(e["id"][1:])):
    if e["status"] != "fixed":
        continue
    what = e["what"].replace("|", "\\|").replace("\n", " ")
    c = e["commit"] + "".join(", " + x for x in e.get("also_commits", []))
    prop = e["property"] + (("/" + "/".join(e["seen_in"])) if e.get("seen_in") else "")
    rows.append("| %s | %s | `%s` | %s |" % (e["id"], prop, c, what))
table = "| # | property | commit in /repo | what failed |\n|---|---|---|---|\n" + "\n".join(rows) + "\n"
p = "/verif/DESIGN.md"
s = open(p).read()
a, b = "<!-- FIXED-TABLE-BEGIN -->\n", "<!-- FIXED-TABLE-END -->\n"
if a not in s:
    # first use: wrap the existing table
    i = s.index("| # | property | commit in /repo | what failed |")
    j = s.index("\nF47 and F48 have no replay of their own")
    s = s[:i] + a + s[i:j + 1] + b + s[j + 1:]
i, j = s.index(a) + len(a), s.index(b)
s = s[:i] + table + s[j:]
s = re.sub(r"Repaired \(each a minimal `fix:` commit", "Repaired (%d entries; each a minimal `fix:` commit" % len(rows), s) \
    if "entries; each a minimal" not in s else re.sub(r"Repaired \(\d+ entries;", "Repaired (%d entries;" % len(rows), s)
open(p, "w").write(s)
print(len(rows), "rows")
