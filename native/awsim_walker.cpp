// Independent observer: turns any Content into a typed value dump by dynamic_cast on the node class and reading the
// buffers through the public accessors only.  Shares no code with tojson_part, getitem_* or the kernels, so it can
// serve as the observer for oracles (DESIGN.md 4.1).  Output grammar (JSON):
//   null | true | false | <int> | {"f":"%.17g"} | {"c":["re","im"]} | {"dt":[<int>,"format"]}
//   {"s":"latin-1 escaped bytes"} (string) | {"b":"..."} (bytestring)
//   [ ... ] (list) | {"r":[name|null,[[key,value]...]]} (record) | {"t":[v...]} (tuple)
#include "awsim_core.h"
#include "awsim_walker.h"

#include <cstdio>

#include "awkward/Content.h"
#include "awkward/array/NumpyArray.h"
#include "awkward/array/EmptyArray.h"
#include "awkward/array/ListArray.h"
#include "awkward/array/ListOffsetArray.h"
#include "awkward/array/RegularArray.h"
#include "awkward/array/IndexedArray.h"
#include "awkward/array/ByteMaskedArray.h"
#include "awkward/array/BitMaskedArray.h"
#include "awkward/array/UnmaskedArray.h"
#include "awkward/array/UnionArray.h"
#include "awkward/array/RecordArray.h"
#include "awkward/array/Record.h"
#include "awkward/array/VirtualArray.h"
#include "awkward/array/None.h"

namespace ak = awkward;

namespace awsim {
  namespace {
    struct Walker {
      std::string& out;
      long budget;     // guards against absurd sizes (corrupted indexes): counted in emitted items

      explicit Walker(std::string& o) : out(o), budget(2000000) { }

      // length() of a 0-d NumpyArray reads shape[0] of an empty vector: never ask the library for it
      static int64_t safe_len(const ak::Content* c) {
        if (const ak::NumpyArray* np = dynamic_cast<const ak::NumpyArray*>(c)) {
          if (np->shape().empty()) throw WalkError("walker: scalar NumpyArray where an array is expected");
        }
        return c->length();
      }

      void spend() {
        if (--budget < 0) throw WalkError("value too large to dump");
      }

      void dbl(double x) {
        char buf[64];
        snprintf(buf, sizeof(buf), "%.17g", x);
        out += buf;
      }

      std::string array_param(const ak::Content* c) {
        // "__array__" parameter without quotes, or ""
        std::string p = c->parameter("__array__");
        if (p.size() >= 2  &&  p[0] == '"') return p.substr(1, p.size() - 2);
        return "";
      }

      void scalar(const ak::NumpyArray* np, const uint8_t* p) {
        spend();
        switch (np->dtype()) {
          case ak::util::dtype::boolean: out += (*p != 0) ? "true" : "false"; break;
          case ak::util::dtype::int8: out += std::to_string((long long)*reinterpret_cast<const int8_t*>(p)); break;
          case ak::util::dtype::int16: { int16_t v; std::memcpy(&v, p, 2); out += std::to_string((long long)v); break; }
          case ak::util::dtype::int32: { int32_t v; std::memcpy(&v, p, 4); out += std::to_string((long long)v); break; }
          case ak::util::dtype::int64: { int64_t v; std::memcpy(&v, p, 8); out += std::to_string((long long)v); break; }
          case ak::util::dtype::uint8: out += std::to_string((unsigned long long)*p); break;
          case ak::util::dtype::uint16: { uint16_t v; std::memcpy(&v, p, 2); out += std::to_string((unsigned long long)v); break; }
          case ak::util::dtype::uint32: { uint32_t v; std::memcpy(&v, p, 4); out += std::to_string((unsigned long long)v); break; }
          case ak::util::dtype::uint64: { uint64_t v; std::memcpy(&v, p, 8); out += std::to_string((unsigned long long)v); break; }
          case ak::util::dtype::float32: { float v; std::memcpy(&v, p, 4); out += "{\"f\":\""; dbl((double)v); out += "\"}"; break; }
          case ak::util::dtype::float64: { double v; std::memcpy(&v, p, 8); out += "{\"f\":\""; dbl(v); out += "\"}"; break; }
          case ak::util::dtype::complex64: {
            float v[2]; std::memcpy(v, p, 8);
            out += "{\"c\":[\""; dbl((double)v[0]); out += "\",\""; dbl((double)v[1]); out += "\"]}"; break;
          }
          case ak::util::dtype::complex128: {
            double v[2]; std::memcpy(v, p, 16);
            out += "{\"c\":[\""; dbl(v[0]); out += "\",\""; dbl(v[1]); out += "\"]}"; break;
          }
          case ak::util::dtype::datetime64:
          case ak::util::dtype::timedelta64: {
            int64_t v; std::memcpy(&v, p, 8);
            out += "{\"dt\":["; out += std::to_string((long long)v); out += ",";
            json_str(out, np->format()); out += "]}"; break;
          }
          default:
            throw WalkError("walker: dtype not supported");
        }
      }

      // NumpyArray element at multi-index prefix: dim = current dimension, p = pointer to sub-array start
      void numpy_sub(const ak::NumpyArray* np, const uint8_t* p, size_t dim) {
        if (dim == np->shape().size()) {
          scalar(np, p);
          return;
        }
        out.push_back('[');
        for (ssize_t i = 0;  i < np->shape()[dim];  i++) {
          if (i) out.push_back(',');
          numpy_sub(np, p + i * np->strides()[dim], dim + 1);
        }
        out.push_back(']');
      }

      void bytes_of(const ak::Content* content, int64_t start, int64_t stop, const char* tag) {
        const ak::NumpyArray* np = dynamic_cast<const ak::NumpyArray*>(content);
        if (np == nullptr  ||  np->shape().size() != 1  ||  np->itemsize() != 1) {
          throw WalkError("walker: string content is not a flat 1-byte NumpyArray");
        }
        if (start < 0  ||  stop < start  ||  stop > np->length()) {
          throw WalkError("walker: string range outside content");
        }
        spend();
        std::string s;
        const uint8_t* base = reinterpret_cast<const uint8_t*>(np->data());
        for (int64_t i = start;  i < stop;  i++) {
          s.push_back((char)*(base + i * np->strides()[0]));
        }
        out += "{\""; out += tag; out += "\":";
        json_str(out, s);
        out += "}";
      }

      void range(const ak::Content* parent, const ak::Content* content, int64_t start, int64_t stop) {
        std::string ap = array_param(parent);
        if (ap == "string") { bytes_of(content, start, stop, "s"); return; }
        if (ap == "bytestring") { bytes_of(content, start, stop, "b"); return; }
        if (start < 0  ||  stop < start  ||  stop > safe_len(content)) {
          throw WalkError("walker: list range outside content");
        }
        spend();
        out.push_back('[');
        for (int64_t j = start;  j < stop;  j++) {
          if (j != start) out.push_back(',');
          element(content, j);
        }
        out.push_back(']');
      }

      template <typename T>
      bool try_list(const ak::Content* c, int64_t i) {
        if (const ak::ListArrayOf<T>* a = dynamic_cast<const ak::ListArrayOf<T>*>(c)) {
          range(c, a->content().get(), (int64_t)a->starts().getitem_at_nowrap(i), (int64_t)a->stops().getitem_at_nowrap(i));
          return true;
        }
        if (const ak::ListOffsetArrayOf<T>* a = dynamic_cast<const ak::ListOffsetArrayOf<T>*>(c)) {
          range(c, a->content().get(), (int64_t)a->offsets().getitem_at_nowrap(i), (int64_t)a->offsets().getitem_at_nowrap(i + 1));
          return true;
        }
        return false;
      }

      template <typename T, bool OPT>
      bool try_indexed(const ak::Content* c, int64_t i) {
        if (const ak::IndexedArrayOf<T, OPT>* a = dynamic_cast<const ak::IndexedArrayOf<T, OPT>*>(c)) {
          int64_t j = (int64_t)a->index().getitem_at_nowrap(i);
          if (OPT  &&  j < 0) { spend(); out += "null"; return true; }
          if (j < 0  ||  j >= safe_len(a->content().get())) throw WalkError("walker: index outside content");
          element(a->content().get(), j);
          return true;
        }
        return false;
      }

      template <typename T, typename I>
      bool try_union(const ak::Content* c, int64_t i) {
        if (const ak::UnionArrayOf<T, I>* a = dynamic_cast<const ak::UnionArrayOf<T, I>*>(c)) {
          int64_t tag = (int64_t)a->tags().getitem_at_nowrap(i);
          int64_t j = (int64_t)a->index().getitem_at_nowrap(i);
          ak::ContentPtrVec contents = a->contents();
          if (tag < 0  ||  tag >= (int64_t)contents.size()) throw WalkError("walker: union tag outside contents");
          ak::ContentPtr sub = contents[(size_t)tag];
          if (j < 0  ||  j >= safe_len(sub.get())) throw WalkError("walker: union index outside content");
          element(sub.get(), j);
          return true;
        }
        return false;
      }

      void record_at(const ak::RecordArray* r, int64_t i) {
        spend();
        ak::ContentPtrVec contents = r->contents();
        if (r->istuple()) {
          out += "{\"t\":[";
          for (size_t f = 0;  f < contents.size();  f++) {
            if (f) out.push_back(',');
            element(contents[f].get(), i);
          }
          out += "]}";
          return;
        }
        out += "{\"r\":[";
        std::string name = r->parameter("__record__");
        if (name == "null"  ||  name.empty()) out += "null"; else out += name;    // already a JSON string
        out += ",[";
        ak::util::RecordLookupPtr lookup = r->recordlookup();
        for (size_t f = 0;  f < contents.size();  f++) {
          if (f) out.push_back(',');
          out.push_back('[');
          json_str(out, lookup->at(f));
          out.push_back(',');
          element(contents[f].get(), i);
          out.push_back(']');
        }
        out += "]]}";
      }

      void element(const ak::Content* c, int64_t i) {
        if (const ak::NumpyArray* np0 = dynamic_cast<const ak::NumpyArray*>(c)) {
          // a 0-d NumpyArray has no length() (the accessor reads shape[0]): never ask
          if (np0->shape().empty()) throw WalkError("walker: scalar NumpyArray where an array is expected");
        }
        if (i < 0  ||  i >= safe_len(c)) throw WalkError("walker: element index outside array");
        if (const ak::NumpyArray* np = dynamic_cast<const ak::NumpyArray*>(c)) {
          if (np->shape().empty()) throw WalkError("walker: scalar NumpyArray");
          const uint8_t* p = reinterpret_cast<const uint8_t*>(np->data()) + i * np->strides()[0];
          numpy_sub(np, p, 1);
          return;
        }
        if (try_list<int32_t>(c, i)  ||  try_list<uint32_t>(c, i)  ||  try_list<int64_t>(c, i)) return;
        if (const ak::RegularArray* a = dynamic_cast<const ak::RegularArray*>(c)) {
          range(c, a->content().get(), i * a->size(), (i + 1) * a->size());
          return;
        }
        if (try_indexed<int32_t, false>(c, i)  ||  try_indexed<uint32_t, false>(c, i)  ||
            try_indexed<int64_t, false>(c, i)  ||  try_indexed<int32_t, true>(c, i)  ||
            try_indexed<int64_t, true>(c, i)) return;
        if (const ak::ByteMaskedArray* a = dynamic_cast<const ak::ByteMaskedArray*>(c)) {
          bool valid = ((a->mask().getitem_at_nowrap(i) != 0) == a->valid_when());
          if (!valid) { spend(); out += "null"; return; }
          element(a->content().get(), i);
          return;
        }
        if (const ak::BitMaskedArray* a = dynamic_cast<const ak::BitMaskedArray*>(c)) {
          uint8_t byte = a->mask().getitem_at_nowrap(i / 8);
          int bit = a->lsb_order() ? ((byte >> (i % 8)) & 1) : ((byte >> (7 - (i % 8))) & 1);
          bool valid = ((bit != 0) == a->valid_when());
          if (!valid) { spend(); out += "null"; return; }
          element(a->content().get(), i);
          return;
        }
        if (const ak::UnmaskedArray* a = dynamic_cast<const ak::UnmaskedArray*>(c)) {
          element(a->content().get(), i);
          return;
        }
        if (try_union<int8_t, int32_t>(c, i)  ||  try_union<int8_t, uint32_t>(c, i)  ||
            try_union<int8_t, int64_t>(c, i)) return;
        if (const ak::RecordArray* r = dynamic_cast<const ak::RecordArray*>(c)) {
          record_at(r, i);
          return;
        }
        if (const ak::VirtualArray* v = dynamic_cast<const ak::VirtualArray*>(c)) {
          ak::ContentPtr m = v->array();
          element(m.get(), i);
          return;
        }
        throw WalkError(std::string("walker: unknown node class ") + c->classname());
      }

      void top(const ak::Content* c) {
        if (const ak::Record* r = dynamic_cast<const ak::Record*>(c)) {
          out += "{\"scalar\":";
          const ak::RecordArray* ra = dynamic_cast<const ak::RecordArray*>(r->array().get());
          if (ra == nullptr) throw WalkError("walker: Record without a RecordArray");
          record_at(ra, r->at());
          out += "}";
          return;
        }
        if (const ak::VirtualArray* v = dynamic_cast<const ak::VirtualArray*>(c)) {
          ak::ContentPtr m = v->array();
          top(m.get());
          return;
        }
        if (dynamic_cast<const ak::None*>(c) != nullptr) {
          out += "{\"scalar\":null}";
          return;
        }
        if (const ak::NumpyArray* np = dynamic_cast<const ak::NumpyArray*>(c)) {
          if (np->shape().empty()) {
            out += "{\"scalar\":";
            scalar(np, reinterpret_cast<const uint8_t*>(np->data()));
            out += "}";
            return;
          }
          // one string taken out of an array of strings is a flat array of chars
          std::string ap = array_param(c);
          if (np->shape().size() == 1  &&  (ap == "char"  ||  ap == "byte")) {
            out += "{\"scalar\":";
            bytes_of(c, 0, np->length(), ap == "char" ? "s" : "b");
            out += "}";
            return;
          }
        }
        int64_t n = c->length();
        out.push_back('[');
        for (int64_t i = 0;  i < n;  i++) {
          if (i) out.push_back(',');
          element(c, i);
        }
        out.push_back(']');
      }
    };
  }

  void walk(const ak::Content* c, std::string& out) {
    Walker w(out);
    w.top(c);
  }
}
