// Stub of rapidjson/filereadstream.h -- see rapidjson.h (NOT the real library).
#ifndef RJSTUB_FILEREADSTREAM_H_
#define RJSTUB_FILEREADSTREAM_H_

#include "rapidjson.h"

namespace rapidjson {

// Input byte stream over a FILE*, reading through a user-supplied buffer.
// Same algorithm as rapidjson 1.1.0 (a short fread is treated as end of file).
class FileReadStream {
 public:
  typedef char Ch;

  FileReadStream(std::FILE* fp, char* buffer, size_t bufferSize)
      : fp_(fp), buffer_(buffer), bufferSize_(bufferSize), bufferLast_(0),
        current_(buffer_), readCount_(0), count_(0), eof_(false) {
    RAPIDJSON_ASSERT(fp_ != 0);
    RAPIDJSON_ASSERT(bufferSize >= 4);
    Read();
  }

  Ch Peek() const { return *current_; }
  Ch Take() { Ch c = *current_; Read(); return c; }
  size_t Tell() const {
    return count_ + static_cast<size_t>(current_ - buffer_);
  }

  // Not implemented (input-only stream).
  void Put(Ch) { RAPIDJSON_ASSERT(false); }
  void Flush() { RAPIDJSON_ASSERT(false); }
  Ch* PutBegin() { RAPIDJSON_ASSERT(false); return 0; }
  size_t PutEnd(Ch*) { RAPIDJSON_ASSERT(false); return 0; }

  // For encoding detection only.
  const Ch* Peek4() const {
    return (current_ + 4 <= bufferLast_) ? current_ : 0;
  }

 private:
  void Read() {
    if (current_ < bufferLast_)
      ++current_;
    else if (!eof_) {
      count_ += readCount_;
      readCount_ = std::fread(buffer_, 1, bufferSize_, fp_);
      bufferLast_ = buffer_ + readCount_ - 1;
      current_ = buffer_;
      if (readCount_ < bufferSize_) {
        buffer_[readCount_] = '\0';
        ++bufferLast_;
        eof_ = true;
      }
    }
  }

  std::FILE* fp_;
  Ch* buffer_;
  size_t bufferSize_;
  Ch* bufferLast_;
  Ch* current_;
  size_t readCount_;
  size_t count_;  // number of characters read before the current buffer
  bool eof_;
};

}  // namespace rapidjson

#endif  // RJSTUB_FILEREADSTREAM_H_
