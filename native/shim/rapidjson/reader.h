// Stub of rapidjson/reader.h -- see rapidjson.h (NOT the real library).
// The control flow (what is consumed before an error is raised, which offset is
// reported) follows GenericReader of rapidjson 1.1.0 function by function.
#ifndef RJSTUB_READER_H_
#define RJSTUB_READER_H_

#include <limits>
#include <string>
#include <vector>

#include "rapidjson.h"

namespace rapidjson {

// Default SAX handler: every event returns Default() (true) unless overridden
// in Derived (CRTP, exactly as rapidjson).
template <typename Encoding = UTF8<>, typename Derived = void>
struct BaseReaderHandler {
  typedef typename Encoding::Ch Ch;
  typedef Derived Override;
  Override& Self() { return static_cast<Override&>(*this); }

  bool Default() { return true; }
  bool Null() { return Self().Default(); }
  bool Bool(bool) { return Self().Default(); }
  bool Int(int) { return Self().Default(); }
  bool Uint(unsigned) { return Self().Default(); }
  bool Int64(int64_t) { return Self().Default(); }
  bool Uint64(uint64_t) { return Self().Default(); }
  bool Double(double) { return Self().Default(); }
  bool RawNumber(const Ch* str, SizeType len, bool copy) {
    return Self().String(str, len, copy);
  }
  bool String(const Ch*, SizeType, bool) { return Self().Default(); }
  bool StartObject() { return Self().Default(); }
  bool Key(const Ch* str, SizeType len, bool copy) {
    return Self().String(str, len, copy);
  }
  bool EndObject(SizeType) { return Self().Default(); }
  bool StartArray() { return Self().Default(); }
  bool EndArray(SizeType) { return Self().Default(); }
};

template <typename Encoding>
struct BaseReaderHandler<Encoding, void> {
  typedef typename Encoding::Ch Ch;
  bool Default() { return true; }
  bool Null() { return true; }
  bool Bool(bool) { return true; }
  bool Int(int) { return true; }
  bool Uint(unsigned) { return true; }
  bool Int64(int64_t) { return true; }
  bool Uint64(uint64_t) { return true; }
  bool Double(double) { return true; }
  bool RawNumber(const Ch*, SizeType, bool) { return true; }
  bool String(const Ch*, SizeType, bool) { return true; }
  bool StartObject() { return true; }
  bool Key(const Ch*, SizeType, bool) { return true; }
  bool EndObject(SizeType) { return true; }
  bool StartArray() { return true; }
  bool EndArray(SizeType) { return true; }
};

template <typename InputStream>
inline void SkipWhitespace(InputStream& is) {
  typename InputStream::Ch c;
  while ((c = is.Peek()) == ' ' || c == '\n' || c == '\r' || c == '\t')
    is.Take();
}

// SAX-style recursive-descent JSON parser.
template <typename SourceEncoding, typename TargetEncoding,
          typename StackAllocator = void>
class GenericReader {
 public:
  typedef typename SourceEncoding::Ch Ch;

  GenericReader(StackAllocator* = 0, size_t = 256) : parseResult_() {}

  template <unsigned parseFlags, typename InputStream, typename Handler>
  ParseResult Parse(InputStream& is, Handler& handler) {
    parseResult_.Clear();
    SkipWhitespace(is);
    if (is.Peek() == '\0') {
      Fail(kParseErrorDocumentEmpty, is.Tell());
      return parseResult_;
    }
    ParseValue<parseFlags>(is, handler);
    if (HasParseError()) return parseResult_;
    if (!(parseFlags & kParseStopWhenDoneFlag)) {
      SkipWhitespace(is);
      if (is.Peek() != '\0')
        Fail(kParseErrorDocumentRootNotSingular, is.Tell());
    }
    return parseResult_;
  }

  template <typename InputStream, typename Handler>
  ParseResult Parse(InputStream& is, Handler& handler) {
    return Parse<kParseDefaultFlags>(is, handler);
  }

  bool HasParseError() const { return parseResult_.IsError(); }
  ParseErrorCode GetParseErrorCode() const { return parseResult_.Code(); }
  size_t GetErrorOffset() const { return parseResult_.Offset(); }

 protected:
  void SetParseError(ParseErrorCode code, size_t offset) {
    parseResult_.Set(code, offset);
  }

 private:
  GenericReader(const GenericReader&);
  GenericReader& operator=(const GenericReader&);

  void Fail(ParseErrorCode code, size_t offset) {
    RAPIDJSON_ASSERT(!HasParseError());
    parseResult_.Set(code, offset);
  }

  template <typename InputStream>
  static bool Consume(InputStream& is, typename InputStream::Ch expect) {
    if (is.Peek() == expect) {
      is.Take();
      return true;
    }
    return false;
  }

  template <unsigned parseFlags, typename InputStream, typename Handler>
  void ParseValue(InputStream& is, Handler& handler) {
    switch (is.Peek()) {
      case 'n': ParseLiteral(is, handler, "ull", 0); break;
      case 't': ParseLiteral(is, handler, "rue", 1); break;
      case 'f': ParseLiteral(is, handler, "alse", 2); break;
      case '"': ParseString(is, handler, false); break;
      case '{': ParseObject<parseFlags>(is, handler); break;
      case '[': ParseArray<parseFlags>(is, handler); break;
      default: ParseNumber<parseFlags>(is, handler); break;
    }
  }

  // ParseNull / ParseTrue / ParseFalse: the first character is taken, every
  // following character is Consume()d, so a mismatch leaves the stream at the
  // first offending character.
  template <typename InputStream, typename Handler>
  void ParseLiteral(InputStream& is, Handler& handler, const char* rest,
                    int which) {
    is.Take();
    for (; *rest; ++rest) {
      if (!Consume(is, *rest)) {
        Fail(kParseErrorValueInvalid, is.Tell());
        return;
      }
    }
    bool ok = which == 0 ? handler.Null() : handler.Bool(which == 1);
    if (!ok) Fail(kParseErrorTermination, is.Tell());
  }

  template <unsigned parseFlags, typename InputStream, typename Handler>
  void ParseObject(InputStream& is, Handler& handler) {
    is.Take();  // '{'
    if (!handler.StartObject())
      return Fail(kParseErrorTermination, is.Tell());
    SkipWhitespace(is);
    if (Consume(is, '}')) {
      if (!handler.EndObject(0)) Fail(kParseErrorTermination, is.Tell());
      return;
    }
    for (SizeType memberCount = 0;;) {
      if (is.Peek() != '"') return Fail(kParseErrorObjectMissName, is.Tell());
      ParseString(is, handler, true);
      if (HasParseError()) return;
      SkipWhitespace(is);
      if (!Consume(is, ':')) return Fail(kParseErrorObjectMissColon, is.Tell());
      SkipWhitespace(is);
      ParseValue<parseFlags>(is, handler);
      if (HasParseError()) return;
      SkipWhitespace(is);
      ++memberCount;
      switch (is.Peek()) {
        case ',':
          is.Take();
          SkipWhitespace(is);
          break;
        case '}':
          is.Take();
          if (!handler.EndObject(memberCount))
            Fail(kParseErrorTermination, is.Tell());
          return;
        default:
          return Fail(kParseErrorObjectMissCommaOrCurlyBracket, is.Tell());
      }
    }
  }

  template <unsigned parseFlags, typename InputStream, typename Handler>
  void ParseArray(InputStream& is, Handler& handler) {
    is.Take();  // '['
    if (!handler.StartArray()) return Fail(kParseErrorTermination, is.Tell());
    SkipWhitespace(is);
    if (Consume(is, ']')) {
      if (!handler.EndArray(0)) Fail(kParseErrorTermination, is.Tell());
      return;
    }
    for (SizeType elementCount = 0;;) {
      ParseValue<parseFlags>(is, handler);
      if (HasParseError()) return;
      ++elementCount;
      SkipWhitespace(is);
      if (Consume(is, ',')) {
        SkipWhitespace(is);
      }
      else if (Consume(is, ']')) {
        if (!handler.EndArray(elementCount))
          Fail(kParseErrorTermination, is.Tell());
        return;
      }
      else
        return Fail(kParseErrorArrayMissCommaOrSquareBracket, is.Tell());
    }
  }

  template <typename InputStream>
  unsigned ParseHex4(InputStream& is, size_t escapeOffset) {
    unsigned codepoint = 0;
    for (int i = 0; i < 4; i++) {
      Ch c = is.Peek();
      codepoint <<= 4;
      if (c >= '0' && c <= '9') codepoint += static_cast<unsigned>(c - '0');
      else if (c >= 'A' && c <= 'F') codepoint += static_cast<unsigned>(c - 'A' + 10);
      else if (c >= 'a' && c <= 'f') codepoint += static_cast<unsigned>(c - 'a' + 10);
      else {
        Fail(kParseErrorStringUnicodeEscapeInvalidHex, escapeOffset);
        return 0;
      }
      is.Take();
    }
    return codepoint;
  }

  // UTF8<>::Encode of rapidjson (no surrogate check: a lone \uDC00 is encoded
  // as three bytes, as rapidjson 1.1.0 does).
  static void EncodeUtf8(std::vector<char>& os, unsigned cp) {
    if (cp <= 0x7F) os.push_back(static_cast<char>(cp & 0xFF));
    else if (cp <= 0x7FF) {
      os.push_back(static_cast<char>(0xC0 | ((cp >> 6) & 0xFF)));
      os.push_back(static_cast<char>(0x80 | (cp & 0x3F)));
    }
    else if (cp <= 0xFFFF) {
      os.push_back(static_cast<char>(0xE0 | ((cp >> 12) & 0xFF)));
      os.push_back(static_cast<char>(0x80 | ((cp >> 6) & 0x3F)));
      os.push_back(static_cast<char>(0x80 | (cp & 0x3F)));
    }
    else {
      os.push_back(static_cast<char>(0xF0 | ((cp >> 18) & 0xFF)));
      os.push_back(static_cast<char>(0x80 | ((cp >> 12) & 0x3F)));
      os.push_back(static_cast<char>(0x80 | ((cp >> 6) & 0x3F)));
      os.push_back(static_cast<char>(0x80 | (cp & 0x3F)));
    }
  }

  static char Unescape(Ch e) {
    switch (e) {
      case '"': return '"';
      case '/': return '/';
      case '\\': return '\\';
      case 'b': return '\b';
      case 'f': return '\f';
      case 'n': return '\n';
      case 'r': return '\r';
      case 't': return '\t';
      default: return 0;
    }
  }

  // The decoded string lives in a heap buffer owned by this call: the pointer
  // given to the handler dies when the callback returns (rapidjson hands out a
  // pointer into its reusable internal stack, equally transient), copy == true.
  template <typename InputStream, typename Handler>
  void ParseString(InputStream& is, Handler& handler, bool isKey) {
    is.Take();  // '"'
    std::vector<char> os;
    os.reserve(32);
    for (;;) {
      Ch c = is.Peek();
      if (c == '\\') {
        size_t escapeOffset = is.Tell();  // errors report the '\\'
        is.Take();
        Ch e = is.Peek();
        if (Unescape(e)) {
          is.Take();
          os.push_back(Unescape(e));
        }
        else if (e == 'u') {
          is.Take();
          unsigned codepoint = ParseHex4(is, escapeOffset);
          if (HasParseError()) return;
          if (codepoint >= 0xD800 && codepoint <= 0xDBFF) {
            if (!Consume(is, '\\') || !Consume(is, 'u'))
              return Fail(kParseErrorStringUnicodeSurrogateInvalid, escapeOffset);
            unsigned codepoint2 = ParseHex4(is, escapeOffset);
            if (HasParseError()) return;
            if (codepoint2 < 0xDC00 || codepoint2 > 0xDFFF)
              return Fail(kParseErrorStringUnicodeSurrogateInvalid, escapeOffset);
            codepoint =
                (((codepoint - 0xD800) << 10) | (codepoint2 - 0xDC00)) + 0x10000;
          }
          EncodeUtf8(os, codepoint);
        }
        else
          return Fail(kParseErrorStringEscapeInvalid, escapeOffset);
      }
      else if (c == '"') {
        is.Take();
        os.push_back('\0');
        break;
      }
      else if (static_cast<unsigned>(c) < 0x20) {  // bytes >= 0x80 pass
        if (c == '\0')
          return Fail(kParseErrorStringMissQuotationMark, is.Tell());
        else
          return Fail(kParseErrorStringInvalidEncoding, is.Tell());
      }
      else
        os.push_back(is.Take());  // no UTF-8 validation
    }
    SizeType length = static_cast<SizeType>(os.size() - 1);
    bool ok = isKey ? handler.Key(os.data(), length, true)
                    : handler.String(os.data(), length, true);
    if (!ok) Fail(kParseErrorTermination, is.Tell());
  }

  // Input wrapper recording the characters of a number for strtod.
  template <typename InputStream>
  struct NumberStream {
    typedef typename InputStream::Ch Ch;
    NumberStream(InputStream& s) : is(s), text() {}
    Ch Peek() const { return is.Peek(); }
    Ch Take() { Ch c = is.Take(); text.push_back(c); return c; }
    size_t Tell() const { return is.Tell(); }
    bool IsDigit() const { Ch c = is.Peek(); return c >= '0' && c <= '9'; }
    InputStream& is;
    std::string text;
  };

  // Scanning, classification and error conditions as rapidjson 1.1.0; the
  // value of a double is computed with strtod from the scanned text (correctly
  // rounded, i.e. what rapidjson does under kParseFullPrecisionFlag; without
  // that flag real rapidjson may be off by up to 3 ULP).
  template <unsigned parseFlags, typename InputStream, typename Handler>
  void ParseNumber(InputStream& is, Handler& handler) {
    NumberStream<InputStream> s(is);
    size_t startOffset = s.Tell();
    double d = 0.0;
    bool useNanOrInf = false;
    bool minus = Consume(s, '-');

    unsigned i = 0;
    uint64_t i64 = 0;
    bool use64bit = false;
    int significandDigit = 0;
    if (s.Peek() == '0') {
      i = 0;
      s.Take();
    }
    else if (s.Peek() >= '1' && s.Peek() <= '9') {
      i = static_cast<unsigned>(s.Take() - '0');
      const unsigned lim = minus ? 214748364u : 429496729u;  // 2^31, 2^32-1
      const char last = minus ? '8' : '5';
      while (s.IsDigit()) {
        if (i >= lim) {
          if (i != lim || s.Peek() > last) {
            i64 = i;
            use64bit = true;
            break;
          }
        }
        i = i * 10 + static_cast<unsigned>(s.Take() - '0');
        significandDigit++;
      }
    }
    else if ((parseFlags & kParseNanAndInfFlag) &&
             (s.Peek() == 'I' || s.Peek() == 'N')) {
      useNanOrInf = true;
      if (Consume(s, 'N') && Consume(s, 'a') && Consume(s, 'N')) {
        d = std::numeric_limits<double>::quiet_NaN();
      }
      else if (Consume(s, 'I') && Consume(s, 'n') && Consume(s, 'f')) {
        d = minus ? -std::numeric_limits<double>::infinity()
                  : std::numeric_limits<double>::infinity();
        if (s.Peek() == 'i' &&
            !(Consume(s, 'i') && Consume(s, 'n') && Consume(s, 'i') &&
              Consume(s, 't') && Consume(s, 'y')))
          return Fail(kParseErrorValueInvalid, s.Tell());
      }
      else
        return Fail(kParseErrorValueInvalid, s.Tell());
    }
    else
      return Fail(kParseErrorValueInvalid, s.Tell());

    bool useDouble = false;
    if (use64bit) {
      // 2^63 / 10 and (2^64 - 1) / 10
      const uint64_t lim = minus ? UINT64_C(0x0CCCCCCCCCCCCCCC)
                                 : UINT64_C(0x1999999999999999);
      const char last = minus ? '8' : '5';
      while (s.IsDigit()) {
        if (i64 >= lim) {
          if (i64 != lim || s.Peek() > last) {
            d = static_cast<double>(i64);
            useDouble = true;
            break;
          }
        }
        i64 = i64 * 10 + static_cast<unsigned>(s.Take() - '0');
        significandDigit++;
      }
    }

    if (useDouble) {  // integer that does not fit in 64 bits
      while (s.IsDigit()) {
        if (d >= 1.7976931348623157e307)  // DBL_MAX / 10.0
          return Fail(kParseErrorNumberTooBig, startOffset);
        d = d * 10 + (s.Take() - '0');
      }
    }

    int expFrac = 0;
    if (Consume(s, '.')) {
      if (!s.IsDigit()) return Fail(kParseErrorNumberMissFraction, s.Tell());
      if (!useDouble) {
        if (!use64bit) i64 = i;
        while (s.IsDigit()) {
          if (i64 > UINT64_C(0x1FFFFFFFFFFFFF))  // 2^53 - 1
            break;
          i64 = i64 * 10 + static_cast<unsigned>(s.Take() - '0');
          --expFrac;
          if (i64 != 0) significandDigit++;
        }
        d = static_cast<double>(i64);
        useDouble = true;
      }
      while (s.IsDigit()) {
        if (significandDigit < 17) {
          d = d * 10.0 + (s.Take() - '0');
          --expFrac;
          if (d > 0.0) significandDigit++;
        }
        else
          s.Take();
      }
    }

    if (Consume(s, 'e') || Consume(s, 'E')) {
      if (!useDouble) {
        d = static_cast<double>(use64bit ? i64 : i);
        useDouble = true;
      }
      bool expMinus = false;
      if (Consume(s, '+'))
        ;
      else if (Consume(s, '-'))
        expMinus = true;
      if (s.IsDigit()) {
        int exp = static_cast<int>(s.Take() - '0');
        if (expMinus) {
          while (s.IsDigit()) {
            exp = exp * 10 + static_cast<int>(s.Take() - '0');
            if (exp >= 214748364) {  // swallow the rest of a huge exponent
              while (s.IsDigit()) s.Take();
            }
          }
        }
        else {
          int maxExp = 308 - expFrac;
          while (s.IsDigit()) {
            exp = exp * 10 + static_cast<int>(s.Take() - '0');
            if (exp > maxExp)
              return Fail(kParseErrorNumberTooBig, startOffset);
          }
        }
      }
      else
        return Fail(kParseErrorNumberMissExponent, s.Tell());
    }

    bool cont = true;
    if (useDouble) {
      // text is [-]digits[.digits][e[+-]digits]: safe for strtod. 1.1.0 has no
      // overflow check here: e.g. 1.8e308 is delivered as +infinity.
      d = std::strtod(s.text.c_str(), 0);
      cont = handler.Double(d);
    }
    else if (useNanOrInf)
      cont = handler.Double(d);
    else if (use64bit)
      cont = minus ? handler.Int64(static_cast<int64_t>(~i64 + 1))
                   : handler.Uint64(i64);
    else
      cont = minus ? handler.Int(static_cast<int32_t>(~i + 1))
                   : handler.Uint(i);
    if (!cont) Fail(kParseErrorTermination, startOffset);
  }

  ParseResult parseResult_;
};

typedef GenericReader<UTF8<>, UTF8<> > Reader;

}  // namespace rapidjson

#endif  // RJSTUB_READER_H_
