// Stub of rapidjson/error/en.h -- see ../rapidjson.h (NOT the real library).
#ifndef RJSTUB_ERROR_EN_H_
#define RJSTUB_ERROR_EN_H_

#include "../rapidjson.h"

namespace rapidjson {

// English messages, verbatim from rapidjson 1.1.0.
inline const char* GetParseError_En(ParseErrorCode parseErrorCode) {
  switch (parseErrorCode) {
    case kParseErrorNone: return "No error.";
    case kParseErrorDocumentEmpty: return "The document is empty.";
    case kParseErrorDocumentRootNotSingular:
      return "The document root must not be followed by other values.";
    case kParseErrorValueInvalid: return "Invalid value.";
    case kParseErrorObjectMissName: return "Missing a name for object member.";
    case kParseErrorObjectMissColon:
      return "Missing a colon after a name of object member.";
    case kParseErrorObjectMissCommaOrCurlyBracket:
      return "Missing a comma or '}' after an object member.";
    case kParseErrorArrayMissCommaOrSquareBracket:
      return "Missing a comma or ']' after an array element.";
    case kParseErrorStringUnicodeEscapeInvalidHex:
      return "Incorrect hex digit after \\u escape in string.";
    case kParseErrorStringUnicodeSurrogateInvalid:
      return "The surrogate pair in string is invalid.";
    case kParseErrorStringEscapeInvalid:
      return "Invalid escape character in string.";
    case kParseErrorStringMissQuotationMark:
      return "Missing a closing quotation mark in string.";
    case kParseErrorStringInvalidEncoding: return "Invalid encoding in string.";
    case kParseErrorNumberTooBig: return "Number too big to be stored in double.";
    case kParseErrorNumberMissFraction: return "Miss fraction part in number.";
    case kParseErrorNumberMissExponent: return "Miss exponent in number.";
    case kParseErrorTermination: return "Terminate parsing due to Handler error.";
    case kParseErrorUnspecificSyntaxError: return "Unspecific syntax error.";
    default: return "Unknown error.";
  }
}

}  // namespace rapidjson

#endif  // RJSTUB_ERROR_EN_H_
