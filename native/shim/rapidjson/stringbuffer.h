// Stub of rapidjson/stringbuffer.h -- see rapidjson.h (NOT the real library).
#ifndef RJSTUB_STRINGBUFFER_H_
#define RJSTUB_STRINGBUFFER_H_

#include <string>

#include "rapidjson.h"

namespace rapidjson {

// In-memory output stream.
template <typename Encoding>
class GenericStringBuffer {
 public:
  typedef typename Encoding::Ch Ch;

  GenericStringBuffer() : buf_() {}
  void Put(Ch c) { buf_.push_back(c); }
  void PutUnsafe(Ch c) { buf_.push_back(c); }
  void Flush() {}
  void Clear() { buf_.clear(); }
  void ShrinkToFit() { buf_.shrink_to_fit(); }
  void Reserve(size_t count) { buf_.reserve(buf_.size() + count); }
  void Pop(size_t count) { buf_.resize(buf_.size() - count); }
  const Ch* GetString() const { return buf_.c_str(); }  // NUL-terminated
  size_t GetSize() const { return buf_.size(); }
  size_t GetLength() const { return buf_.size(); }

 private:
  GenericStringBuffer(const GenericStringBuffer&);
  GenericStringBuffer& operator=(const GenericStringBuffer&);
  std::basic_string<Ch> buf_;
};
typedef GenericStringBuffer<UTF8<> > StringBuffer;

}  // namespace rapidjson

#endif  // RJSTUB_STRINGBUFFER_H_
