// Framework-owned stand-in for rapidjson 1.1.0 (the submodule is empty in this sandbox).
// Written to rapidjson's documented contract; NOT the real library.
//
// Layout: rapidjson.h     common types, error codes, ParseResult, StringStream
//         stringbuffer.h / filereadstream.h / filewritestream.h   streams
//         reader.h        SAX tokenizer (GenericReader), BaseReaderHandler
//         writer.h / prettywriter.h   Writer, PrettyWriter
//         document.h      DOM (Value, Document); built through the SAX reader
//         error/en.h      GetParseError_En
#ifndef RJSTUB_RAPIDJSON_H_
#define RJSTUB_RAPIDJSON_H_

#include <cassert>
#include <cstddef>
#include <cstdint>
#include <cstdio>
#include <cstdlib>
#include <cstring>

#ifndef RAPIDJSON_ASSERT
#define RAPIDJSON_ASSERT(x) assert(x)
#endif
#define RAPIDJSON_MAJOR_VERSION 1
#define RAPIDJSON_MINOR_VERSION 1
#define RAPIDJSON_PATCH_VERSION 0
#define RAPIDJSON_VERSION_STRING "1.1.0"
#define RAPIDJSON_NAMESPACE rapidjson

namespace rapidjson {

typedef unsigned SizeType;

template <typename CharType = char>
struct UTF8 {
  typedef CharType Ch;
};

enum Type {
  kNullType = 0,
  kFalseType = 1,
  kTrueType = 2,
  kObjectType = 3,
  kArrayType = 4,
  kStringType = 5,
  kNumberType = 6
};

enum ParseFlag {
  kParseNoFlags = 0,
  kParseInsituFlag = 1,            // not supported by the stub
  kParseValidateEncodingFlag = 2,  // not supported by the stub
  kParseIterativeFlag = 4,         // accepted; the stub always recurses
  kParseStopWhenDoneFlag = 8,
  kParseFullPrecisionFlag = 16,  // accepted; the stub always rounds correctly
  kParseCommentsFlag = 32,       // not supported by the stub
  kParseNumbersAsStringsFlag = 64,  // not supported by the stub
  kParseTrailingCommasFlag = 128,   // not supported by the stub
  kParseNanAndInfFlag = 256,
  kParseDefaultFlags = kParseNoFlags
};

enum ParseErrorCode {
  kParseErrorNone = 0,
  kParseErrorDocumentEmpty,
  kParseErrorDocumentRootNotSingular,
  kParseErrorValueInvalid,
  kParseErrorObjectMissName,
  kParseErrorObjectMissColon,
  kParseErrorObjectMissCommaOrCurlyBracket,
  kParseErrorArrayMissCommaOrSquareBracket,
  kParseErrorStringUnicodeEscapeInvalidHex,
  kParseErrorStringUnicodeSurrogateInvalid,
  kParseErrorStringEscapeInvalid,
  kParseErrorStringMissQuotationMark,
  kParseErrorStringInvalidEncoding,
  kParseErrorNumberTooBig,
  kParseErrorNumberMissFraction,
  kParseErrorNumberMissExponent,
  kParseErrorTermination,
  kParseErrorUnspecificSyntaxError
};

// Result of parsing; converts to true when there is no error (safe-bool idiom,
// so that `bool ok = reader.Parse<...>(is, handler);` compiles as with rapidjson).
struct ParseResult {
  typedef bool (ParseResult::*BooleanType)() const;

  ParseResult() : code_(kParseErrorNone), offset_(0) {}
  ParseResult(ParseErrorCode code, size_t offset)
      : code_(code), offset_(offset) {}

  ParseErrorCode Code() const { return code_; }
  size_t Offset() const { return offset_; }
  operator BooleanType() const {
    return !IsError() ? &ParseResult::IsError : NULL;
  }
  bool IsError() const { return code_ != kParseErrorNone; }
  bool operator==(const ParseResult& that) const { return code_ == that.code_; }
  bool operator==(ParseErrorCode code) const { return code_ == code; }
  friend bool operator==(ParseErrorCode code, const ParseResult& err) {
    return code == err.code_;
  }
  void Clear() { Set(kParseErrorNone); }
  void Set(ParseErrorCode code, size_t offset = 0) {
    code_ = code;
    offset_ = offset;
  }

 private:
  ParseErrorCode code_;
  size_t offset_;
};

// Read-only, NUL-terminated, in-memory input stream.
template <typename Encoding>
struct GenericStringStream {
  typedef typename Encoding::Ch Ch;

  GenericStringStream(const Ch* src) : src_(src), head_(src) {}
  Ch Peek() const { return *src_; }
  Ch Take() { return *src_++; }
  size_t Tell() const { return static_cast<size_t>(src_ - head_); }
  Ch* PutBegin() { RAPIDJSON_ASSERT(false); return 0; }
  void Put(Ch) { RAPIDJSON_ASSERT(false); }
  void Flush() { RAPIDJSON_ASSERT(false); }
  size_t PutEnd(Ch*) { RAPIDJSON_ASSERT(false); return 0; }

  const Ch* src_;   // current read position
  const Ch* head_;  // original head of the string
};
typedef GenericStringStream<UTF8<> > StringStream;

// Put `n` copies of `c`; streams may overload this (rapidjson's PutN hook).
template <typename Stream, typename Ch>
inline void PutN(Stream& stream, Ch c, size_t n) {
  for (size_t i = 0; i < n; i++) stream.Put(c);
}

}  // namespace rapidjson

#endif  // RJSTUB_RAPIDJSON_H_
