// Stub of rapidjson/document.h -- see rapidjson.h (NOT the real library).
// No allocators: values own std::string / std::vector storage. The mutation API
// is therefore not rapidjson's (no Allocator arguments); the read API is.
#ifndef RJSTUB_DOCUMENT_H_
#define RJSTUB_DOCUMENT_H_

#include <string>
#include <type_traits>
#include <utility>
#include <vector>

#include "rapidjson.h"
#include "reader.h"

namespace rapidjson {

template <typename Encoding, typename Allocator = void>
class GenericValue;

// Name-value pair in a JSON object.
template <typename Encoding, typename Allocator = void>
struct GenericMember {
  GenericValue<Encoding, Allocator> name;   // always a string
  GenericValue<Encoding, Allocator> value;
};

// Range-for-able view of an array value (GetArray()).
template <bool Const, typename ValueT>
class GenericArray {
 public:
  typedef typename std::conditional<Const, const ValueT, ValueT>::type ValueType;
  typedef ValueType* ValueIterator;
  explicit GenericArray(ValueType& value) : value_(value) {}
  SizeType Size() const { return value_.Size(); }
  bool Empty() const { return value_.Empty(); }
  ValueType& operator[](SizeType index) const { return value_[index]; }
  ValueIterator Begin() const { return value_.Begin(); }
  ValueIterator End() const { return value_.End(); }
  ValueIterator begin() const { return value_.Begin(); }
  ValueIterator end() const { return value_.End(); }
 private:
  ValueType& value_;
};

// Range-for-able view of an object value (GetObject()).
template <bool Const, typename ValueT>
class GenericObject {
 public:
  typedef typename std::conditional<Const, const ValueT, ValueT>::type ValueType;
  typedef typename std::conditional<Const, typename ValueT::ConstMemberIterator,
                                    typename ValueT::MemberIterator>::type
      MemberIterator;
  typedef typename ValueT::Ch Ch;
  explicit GenericObject(ValueType& value) : value_(value) {}
  SizeType MemberCount() const { return value_.MemberCount(); }
  bool ObjectEmpty() const { return value_.ObjectEmpty(); }
  template <typename T> ValueType& operator[](T* name) const { return value_[name]; }
  ValueType& operator[](const std::basic_string<Ch>& name) const { return value_[name]; }
  MemberIterator MemberBegin() const { return value_.MemberBegin(); }
  MemberIterator MemberEnd() const { return value_.MemberEnd(); }
  bool HasMember(const Ch* name) const { return value_.HasMember(name); }
  bool HasMember(const std::basic_string<Ch>& name) const { return value_.HasMember(name); }
  MemberIterator FindMember(const Ch* name) const { return value_.FindMember(name); }
  MemberIterator FindMember(const std::basic_string<Ch>& name) const { return value_.FindMember(name); }
  MemberIterator begin() const { return value_.MemberBegin(); }
  MemberIterator end() const { return value_.MemberEnd(); }
 private:
  ValueType& value_;
};

// A JSON value of any type. Movable, not copyable (as rapidjson).
template <typename Encoding, typename Allocator>
class GenericValue {
 public:
  typedef GenericMember<Encoding, Allocator> Member;
  typedef Encoding EncodingType;
  typedef typename Encoding::Ch Ch;
  typedef Member* MemberIterator;
  typedef const Member* ConstMemberIterator;
  typedef GenericValue* ValueIterator;
  typedef const GenericValue* ConstValueIterator;
  typedef GenericValue<Encoding, Allocator> ValueType;
  typedef GenericArray<false, ValueType> Array;
  typedef GenericArray<true, ValueType> ConstArray;
  typedef GenericObject<false, ValueType> Object;
  typedef GenericObject<true, ValueType> ConstObject;
  typedef std::basic_string<Ch> StdString;

  GenericValue() : type_(kNullType), flags_(0), str_(), arr_(0), obj_(0) { n_.u64 = 0; }
  explicit GenericValue(Type type)
      : type_(type), flags_(0), str_(), arr_(0), obj_(0) {
    n_.u64 = 0;
    if (type == kArrayType) arr_ = new std::vector<GenericValue>();
    if (type == kObjectType) obj_ = new std::vector<Member>();
    if (type == kNumberType) flags_ = kIntFlag | kUintFlag | kInt64Flag | kUint64Flag;
  }
  GenericValue(GenericValue&& rhs) noexcept
      : type_(kNullType), flags_(0), str_(), arr_(0), obj_(0) {
    n_.u64 = 0;
    Swap(rhs);
  }
  template <typename T>
  explicit GenericValue(T b, typename std::enable_if<std::is_same<T, bool>::value>::type* = 0)
      : type_(b ? kTrueType : kFalseType), flags_(0), str_(), arr_(0), obj_(0) { n_.u64 = 0; }
  explicit GenericValue(int i) : type_(kNullType), flags_(0), str_(), arr_(0), obj_(0) { SetInt(i); }
  explicit GenericValue(unsigned u) : type_(kNullType), flags_(0), str_(), arr_(0), obj_(0) { SetUint(u); }
  explicit GenericValue(int64_t i) : type_(kNullType), flags_(0), str_(), arr_(0), obj_(0) { SetInt64(i); }
  explicit GenericValue(uint64_t u) : type_(kNullType), flags_(0), str_(), arr_(0), obj_(0) { SetUint64(u); }
  explicit GenericValue(double d) : type_(kNullType), flags_(0), str_(), arr_(0), obj_(0) { SetDouble(d); }
  GenericValue(const Ch* s, SizeType length)
      : type_(kStringType), flags_(0), str_(s, length), arr_(0), obj_(0) { n_.u64 = 0; }
  explicit GenericValue(const Ch* s)
      : type_(kStringType), flags_(0), str_(s), arr_(0), obj_(0) { n_.u64 = 0; }
  ~GenericValue() { Destroy(); }

  // Assignment with move semantics (rhs becomes null), as rapidjson.
  GenericValue& operator=(GenericValue& rhs) {
    if (this != &rhs) { GenericValue tmp; tmp.Swap(rhs); Swap(tmp); }
    return *this;
  }
  GenericValue& operator=(GenericValue&& rhs) { return *this = rhs; }
  GenericValue& Swap(GenericValue& other) {
    std::swap(type_, other.type_);
    std::swap(flags_, other.flags_);
    std::swap(n_, other.n_);
    str_.swap(other.str_);
    std::swap(arr_, other.arr_);
    std::swap(obj_, other.obj_);
    return *this;
  }

  // Equality as rapidjson 1.1.0 (objects ignore member order; numbers compare
  // as doubles if either side is a double, else by 64-bit pattern).
  bool operator==(const GenericValue& rhs) const {
    if (GetType() != rhs.GetType()) return false;
    switch (GetType()) {
      case kObjectType:
        if (obj_->size() != rhs.obj_->size()) return false;
        for (ConstMemberIterator l = MemberBegin(); l != MemberEnd(); ++l) {
          ConstMemberIterator r = rhs.FindMember(l->name);
          if (r == rhs.MemberEnd() || l->value != r->value) return false;
        }
        return true;
      case kArrayType:
        if (arr_->size() != rhs.arr_->size()) return false;
        for (size_t i = 0; i < arr_->size(); i++)
          if ((*arr_)[i] != (*rhs.arr_)[i]) return false;
        return true;
      case kStringType: return str_ == rhs.str_;
      case kNumberType:
        if (IsDouble() || rhs.IsDouble()) {
          double a = GetDouble();
          double b = rhs.GetDouble();
          return a >= b && a <= b;
        }
        return n_.u64 == rhs.n_.u64;
      default: return true;
    }
  }
  bool operator==(const Ch* rhs) const { return IsString() && str_ == rhs; }
  bool operator==(const StdString& rhs) const { return IsString() && str_ == rhs; }
  template <typename T> bool operator!=(const T& rhs) const { return !(*this == rhs); }

  Type GetType() const { return type_; }
  bool IsNull() const { return type_ == kNullType; }
  bool IsFalse() const { return type_ == kFalseType; }
  bool IsTrue() const { return type_ == kTrueType; }
  bool IsBool() const { return type_ == kTrueType || type_ == kFalseType; }
  bool IsObject() const { return type_ == kObjectType; }
  bool IsArray() const { return type_ == kArrayType; }
  bool IsNumber() const { return type_ == kNumberType; }
  bool IsInt() const { return (flags_ & kIntFlag) != 0; }
  bool IsUint() const { return (flags_ & kUintFlag) != 0; }
  bool IsInt64() const { return (flags_ & kInt64Flag) != 0; }
  bool IsUint64() const { return (flags_ & kUint64Flag) != 0; }
  bool IsDouble() const { return (flags_ & kDoubleFlag) != 0; }
  bool IsString() const { return type_ == kStringType; }

  bool GetBool() const { RAPIDJSON_ASSERT(IsBool()); return type_ == kTrueType; }
  int GetInt() const { RAPIDJSON_ASSERT(IsInt()); return static_cast<int>(n_.i64); }
  unsigned GetUint() const { RAPIDJSON_ASSERT(IsUint()); return static_cast<unsigned>(n_.u64); }
  int64_t GetInt64() const { RAPIDJSON_ASSERT(IsInt64()); return n_.i64; }
  uint64_t GetUint64() const { RAPIDJSON_ASSERT(IsUint64()); return n_.u64; }
  double GetDouble() const {
    RAPIDJSON_ASSERT(IsNumber());
    if (IsDouble()) return n_.d;
    if (IsInt() || IsInt64()) return static_cast<double>(n_.i64);
    return static_cast<double>(n_.u64);
  }
  const Ch* GetString() const { RAPIDJSON_ASSERT(IsString()); return str_.c_str(); }
  SizeType GetStringLength() const {
    RAPIDJSON_ASSERT(IsString());
    return static_cast<SizeType>(str_.size());
  }

  GenericValue& SetNull() { Destroy(); type_ = kNullType; return *this; }
  GenericValue& SetBool(bool b) { Destroy(); type_ = b ? kTrueType : kFalseType; return *this; }
  GenericValue& SetInt(int i) {
    SetNum(kIntFlag | kInt64Flag | (i >= 0 ? kUintFlag | kUint64Flag : 0));
    n_.i64 = i;
    return *this;
  }
  GenericValue& SetUint(unsigned u) {
    SetNum(kUintFlag | kInt64Flag | kUint64Flag | ((u & 0x80000000u) ? 0 : kIntFlag));
    n_.u64 = u;
    return *this;
  }
  GenericValue& SetInt64(int64_t i) {
    unsigned f = kInt64Flag;
    if (i >= 0) {
      f |= kUint64Flag;
      if (!(static_cast<uint64_t>(i) & UINT64_C(0xFFFFFFFF00000000))) f |= kUintFlag;
      if (!(static_cast<uint64_t>(i) & UINT64_C(0xFFFFFFFF80000000))) f |= kIntFlag;
    }
    else if (i >= -INT64_C(2147483648))
      f |= kIntFlag;
    SetNum(f);
    n_.i64 = i;
    return *this;
  }
  GenericValue& SetUint64(uint64_t u) {
    unsigned f = kUint64Flag;
    if (!(u & UINT64_C(0x8000000000000000))) f |= kInt64Flag;
    if (!(u & UINT64_C(0xFFFFFFFF00000000))) f |= kUintFlag;
    if (!(u & UINT64_C(0xFFFFFFFF80000000))) f |= kIntFlag;
    SetNum(f);
    n_.u64 = u;
    return *this;
  }
  GenericValue& SetDouble(double d) { SetNum(kDoubleFlag); n_.d = d; return *this; }
  GenericValue& SetString(const Ch* s, SizeType length) {
    Destroy();
    type_ = kStringType;
    str_.assign(s, length);
    return *this;
  }
  GenericValue& SetArray() { Destroy(); type_ = kArrayType; arr_ = new std::vector<GenericValue>(); return *this; }
  GenericValue& SetObject() { Destroy(); type_ = kObjectType; obj_ = new std::vector<Member>(); return *this; }
  // Stub-only mutators (move from the arguments).
  GenericValue& PushBack(GenericValue& v) {
    RAPIDJSON_ASSERT(IsArray());
    arr_->push_back(std::move(v));
    return *this;
  }
  GenericValue& AddMember(GenericValue& name, GenericValue& value) {
    RAPIDJSON_ASSERT(IsObject() && name.IsString());
    obj_->push_back(Member());
    obj_->back().name.Swap(name);
    obj_->back().value.Swap(value);
    return *this;
  }

  // Arrays
  SizeType Size() const { RAPIDJSON_ASSERT(IsArray()); return static_cast<SizeType>(arr_->size()); }
  bool Empty() const { RAPIDJSON_ASSERT(IsArray()); return arr_->empty(); }
  GenericValue& operator[](SizeType index) {
    RAPIDJSON_ASSERT(IsArray() && index < arr_->size());
    return (*arr_)[index];
  }
  const GenericValue& operator[](SizeType index) const {
    return const_cast<GenericValue&>(*this)[index];
  }
  ValueIterator Begin() { RAPIDJSON_ASSERT(IsArray()); return arr_->data(); }
  ValueIterator End() { RAPIDJSON_ASSERT(IsArray()); return arr_->data() + arr_->size(); }
  ConstValueIterator Begin() const { return const_cast<GenericValue&>(*this).Begin(); }
  ConstValueIterator End() const { return const_cast<GenericValue&>(*this).End(); }
  Array GetArray() { RAPIDJSON_ASSERT(IsArray()); return Array(*this); }
  ConstArray GetArray() const { RAPIDJSON_ASSERT(IsArray()); return ConstArray(*this); }

  // Objects (duplicate names are kept; lookups return the first match)
  SizeType MemberCount() const { RAPIDJSON_ASSERT(IsObject()); return static_cast<SizeType>(obj_->size()); }
  bool ObjectEmpty() const { RAPIDJSON_ASSERT(IsObject()); return obj_->empty(); }
  MemberIterator MemberBegin() { RAPIDJSON_ASSERT(IsObject()); return obj_->data(); }
  MemberIterator MemberEnd() { RAPIDJSON_ASSERT(IsObject()); return obj_->data() + obj_->size(); }
  ConstMemberIterator MemberBegin() const { return const_cast<GenericValue&>(*this).MemberBegin(); }
  ConstMemberIterator MemberEnd() const { return const_cast<GenericValue&>(*this).MemberEnd(); }
  MemberIterator FindMember(const GenericValue& name) {
    RAPIDJSON_ASSERT(IsObject() && name.IsString());
    MemberIterator m = MemberBegin();
    for (; m != MemberEnd(); ++m)
      if (m->name.str_ == name.str_) break;
    return m;
  }
  MemberIterator FindMember(const Ch* name) { GenericValue n(name); return FindMember(n); }
  MemberIterator FindMember(const StdString& name) {
    GenericValue n(name.data(), static_cast<SizeType>(name.size()));
    return FindMember(n);
  }
  ConstMemberIterator FindMember(const GenericValue& name) const { return const_cast<GenericValue&>(*this).FindMember(name); }
  ConstMemberIterator FindMember(const Ch* name) const { return const_cast<GenericValue&>(*this).FindMember(name); }
  ConstMemberIterator FindMember(const StdString& name) const { return const_cast<GenericValue&>(*this).FindMember(name); }
  bool HasMember(const Ch* name) const { return FindMember(name) != MemberEnd(); }
  bool HasMember(const StdString& name) const { return FindMember(name) != MemberEnd(); }
  bool HasMember(const GenericValue& name) const { return FindMember(name) != MemberEnd(); }
  // operator[](T*) is a template so that value[0] is not ambiguous (rapidjson's trick).
  template <typename T>
  typename std::enable_if<std::is_same<typename std::remove_const<T>::type, Ch>::value, GenericValue&>::type
  operator[](T* name) { GenericValue n(name); return (*this)[n]; }
  template <typename T>
  typename std::enable_if<std::is_same<typename std::remove_const<T>::type, Ch>::value, const GenericValue&>::type
  operator[](T* name) const { return const_cast<GenericValue&>(*this)[name]; }
  GenericValue& operator[](const StdString& name) {
    GenericValue n(name.data(), static_cast<SizeType>(name.size()));
    return (*this)[n];
  }
  const GenericValue& operator[](const StdString& name) const { return const_cast<GenericValue&>(*this)[name]; }
  GenericValue& operator[](const GenericValue& name) {
    MemberIterator m = FindMember(name);
    if (m != MemberEnd()) return m->value;
    RAPIDJSON_ASSERT(false);  // member must exist (rapidjson asserts, too)
    static GenericValue nullValue;
    return nullValue.SetNull();
  }
  const GenericValue& operator[](const GenericValue& name) const { return const_cast<GenericValue&>(*this)[name]; }
  Object GetObject() { RAPIDJSON_ASSERT(IsObject()); return Object(*this); }
  ConstObject GetObject() const { RAPIDJSON_ASSERT(IsObject()); return ConstObject(*this); }

  // Replays this value as SAX events (e.g. into a Writer).
  template <typename Handler>
  bool Accept(Handler& handler) const {
    switch (GetType()) {
      case kNullType: return handler.Null();
      case kFalseType: return handler.Bool(false);
      case kTrueType: return handler.Bool(true);
      case kObjectType:
        if (!handler.StartObject()) return false;
        for (ConstMemberIterator m = MemberBegin(); m != MemberEnd(); ++m) {
          if (!handler.Key(m->name.GetString(), m->name.GetStringLength(), true)) return false;
          if (!m->value.Accept(handler)) return false;
        }
        return handler.EndObject(MemberCount());
      case kArrayType:
        if (!handler.StartArray()) return false;
        for (ConstValueIterator v = Begin(); v != End(); ++v)
          if (!v->Accept(handler)) return false;
        return handler.EndArray(Size());
      case kStringType: return handler.String(GetString(), GetStringLength(), true);
      default:
        RAPIDJSON_ASSERT(GetType() == kNumberType);
        if (IsDouble()) return handler.Double(n_.d);
        else if (IsInt()) return handler.Int(static_cast<int>(n_.i64));
        else if (IsUint()) return handler.Uint(static_cast<unsigned>(n_.u64));
        else if (IsInt64()) return handler.Int64(n_.i64);
        else return handler.Uint64(n_.u64);
    }
  }

 private:
  enum { kIntFlag = 1, kUintFlag = 2, kInt64Flag = 4, kUint64Flag = 8, kDoubleFlag = 16 };
  union Number { int64_t i64; uint64_t u64; double d; };

  GenericValue(const GenericValue&);  // not copyable

  void Destroy() {
    delete arr_;
    delete obj_;
    arr_ = 0;
    obj_ = 0;
    str_.clear();
    flags_ = 0;
    n_.u64 = 0;
    type_ = kNullType;
  }
  void SetNum(unsigned flags) { Destroy(); type_ = kNumberType; flags_ = flags; }

  Type type_;
  unsigned flags_;  // number classification (k*Flag), 0 for non-numbers
  Number n_;
  StdString str_;
  std::vector<GenericValue>* arr_;  // owned; non-null iff array
  std::vector<Member>* obj_;        // owned; non-null iff object
};
typedef GenericValue<UTF8<> > Value;

// A DOM tree built by feeding the SAX reader's events into a value stack. A
// failed parse leaves the document's previous value (null if new) untouched.
template <typename Encoding, typename Allocator = void, typename StackAllocator = void>
class GenericDocument : public GenericValue<Encoding, Allocator> {
 public:
  typedef typename Encoding::Ch Ch;
  typedef GenericValue<Encoding, Allocator> ValueType;

  GenericDocument() : ValueType(), stack_(), parseResult_() {}
  explicit GenericDocument(Type type) : ValueType(type), stack_(), parseResult_() {}

  template <unsigned parseFlags, typename InputStream>
  GenericDocument& ParseStream(InputStream& is) {
    GenericReader<Encoding, Encoding, StackAllocator> reader;
    stack_.clear();
    parseResult_ = reader.template Parse<parseFlags>(is, *this);
    if (parseResult_) {
      RAPIDJSON_ASSERT(stack_.size() == 1);  // exactly one root
      ValueType::operator=(stack_.back());
    }
    stack_.clear();
    return *this;
  }
  template <typename InputStream>
  GenericDocument& ParseStream(InputStream& is) { return ParseStream<kParseDefaultFlags>(is); }
  template <unsigned parseFlags>
  GenericDocument& Parse(const Ch* str) {
    RAPIDJSON_ASSERT(!(parseFlags & kParseInsituFlag));
    GenericStringStream<Encoding> s(str);
    return ParseStream<parseFlags>(s);
  }
  GenericDocument& Parse(const Ch* str) { return Parse<kParseDefaultFlags>(str); }
  template <unsigned parseFlags>
  GenericDocument& Parse(const Ch* str, size_t length) {
    std::basic_string<Ch> copy(str, length);  // an embedded NUL ends the text
    return Parse<parseFlags>(copy.c_str());
  }
  GenericDocument& Parse(const Ch* str, size_t length) { return Parse<kParseDefaultFlags>(str, length); }
  template <unsigned parseFlags>
  GenericDocument& Parse(const std::basic_string<Ch>& str) { return Parse<parseFlags>(str.c_str()); }
  GenericDocument& Parse(const std::basic_string<Ch>& str) { return Parse<kParseDefaultFlags>(str.c_str()); }

  bool HasParseError() const { return parseResult_.IsError(); }
  ParseErrorCode GetParseError() const { return parseResult_.Code(); }
  size_t GetErrorOffset() const { return parseResult_.Offset(); }
  operator ParseResult() const { return parseResult_; }

  // Handler implementation (public, as in rapidjson).
  bool Null() { stack_.push_back(ValueType()); return true; }
  bool Bool(bool b) { stack_.push_back(ValueType(b)); return true; }
  bool Int(int i) { stack_.push_back(ValueType(i)); return true; }
  bool Uint(unsigned i) { stack_.push_back(ValueType(i)); return true; }
  bool Int64(int64_t i) { stack_.push_back(ValueType(i)); return true; }
  bool Uint64(uint64_t i) { stack_.push_back(ValueType(i)); return true; }
  bool Double(double d) { stack_.push_back(ValueType(d)); return true; }
  bool RawNumber(const Ch* str, SizeType length, bool) { return String(str, length, true); }
  bool String(const Ch* str, SizeType length, bool) {  // always copies
    stack_.push_back(ValueType(str, length));
    return true;
  }
  bool StartObject() { stack_.push_back(ValueType(kObjectType)); return true; }
  bool Key(const Ch* str, SizeType length, bool copy) { return String(str, length, copy); }
  bool EndObject(SizeType memberCount) {
    size_t base = stack_.size() - 2 * static_cast<size_t>(memberCount);
    ValueType& object = stack_[base - 1];
    for (size_t i = base; i < stack_.size(); i += 2)
      object.AddMember(stack_[i], stack_[i + 1]);
    stack_.resize(base);
    return true;
  }
  bool StartArray() { stack_.push_back(ValueType(kArrayType)); return true; }
  bool EndArray(SizeType elementCount) {
    size_t base = stack_.size() - elementCount;
    ValueType& array = stack_[base - 1];
    for (size_t i = base; i < stack_.size(); i++) array.PushBack(stack_[i]);
    stack_.resize(base);
    return true;
  }

 private:
  GenericDocument(const GenericDocument&);
  GenericDocument& operator=(const GenericDocument&);

  std::vector<ValueType> stack_;
  ParseResult parseResult_;
};
typedef GenericDocument<UTF8<> > Document;

}  // namespace rapidjson

#endif  // RJSTUB_DOCUMENT_H_
