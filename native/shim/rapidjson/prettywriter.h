// Stub of rapidjson/prettywriter.h -- see rapidjson.h (NOT the real library).
#ifndef RJSTUB_PRETTYWRITER_H_
#define RJSTUB_PRETTYWRITER_H_

#include "writer.h"

namespace rapidjson {

enum PrettyFormatOptions {
  kFormatDefault = 0,
  kFormatSingleLineArray = 1  // arrays on one line: [1, 2, 3]
};

// Writer with indentation and line feeds. As in rapidjson 1.1.0, only
// EndObject/EndArray at root level flush the stream (root scalars do not).
template <typename OutputStream, typename SourceEncoding = UTF8<>,
          typename TargetEncoding = UTF8<>, typename StackAllocator = void,
          unsigned writeFlags = kWriteDefaultFlags>
class PrettyWriter : public Writer<OutputStream, SourceEncoding, TargetEncoding,
                                   StackAllocator, writeFlags> {
 public:
  typedef Writer<OutputStream, SourceEncoding, TargetEncoding, StackAllocator,
                 writeFlags> Base;
  typedef typename Base::Ch Ch;

  explicit PrettyWriter(OutputStream& os, StackAllocator* allocator = 0,
                        size_t levelDepth = 0)
      : Base(os, allocator, levelDepth), indentChar_(' '),
        indentCharCount_(4), formatOptions_(kFormatDefault) {}
  explicit PrettyWriter(StackAllocator* allocator = 0, size_t levelDepth = 0)
      : Base(allocator, levelDepth), indentChar_(' '), indentCharCount_(4),
        formatOptions_(kFormatDefault) {}

  PrettyWriter& SetIndent(Ch indentChar, unsigned indentCharCount) {
    RAPIDJSON_ASSERT(indentChar == ' ' || indentChar == '\t' ||
                     indentChar == '\n' || indentChar == '\r');
    indentChar_ = indentChar;
    indentCharCount_ = indentCharCount;
    return *this;
  }
  PrettyWriter& SetFormatOptions(PrettyFormatOptions options) {
    formatOptions_ = options;
    return *this;
  }

  bool Null() { PrettyPrefix(kNullType); return Base::WriteNull(); }
  bool Bool(bool b) {
    PrettyPrefix(b ? kTrueType : kFalseType);
    return Base::WriteBool(b);
  }
  bool Int(int i) { PrettyPrefix(kNumberType); return Base::WriteInt64(i); }
  bool Uint(unsigned u) { PrettyPrefix(kNumberType); return Base::WriteUint64(u); }
  bool Int64(int64_t i) { PrettyPrefix(kNumberType); return Base::WriteInt64(i); }
  bool Uint64(uint64_t u) { PrettyPrefix(kNumberType); return Base::WriteUint64(u); }
  bool Double(double d) { PrettyPrefix(kNumberType); return Base::WriteDouble(d); }
  bool RawNumber(const Ch* str, SizeType length, bool = false) {
    PrettyPrefix(kNumberType);
    return Base::WriteString(str, length);
  }
  bool String(const Ch* str, SizeType length, bool = false) {
    PrettyPrefix(kStringType);
    return Base::WriteString(str, length);
  }
  bool String(const std::basic_string<Ch>& str) {
    return String(str.data(), static_cast<SizeType>(str.size()));
  }
  bool StartObject() {
    PrettyPrefix(kObjectType);
    Base::level_stack_.push_back(typename Base::Level(false));
    return Base::WriteStartObject();
  }
  bool Key(const Ch* str, SizeType length, bool copy = false) {
    return String(str, length, copy);
  }
  bool EndObject(SizeType = 0) {
    RAPIDJSON_ASSERT(!Base::level_stack_.empty() &&
                     !Base::level_stack_.back().inArray);
    bool empty = Base::level_stack_.back().valueCount == 0;
    Base::level_stack_.pop_back();
    if (!empty) {
      Base::os_->Put('\n');
      WriteIndent();
    }
    bool ret = Base::WriteEndObject();
    (void)ret;
    if (Base::level_stack_.empty()) Base::os_->Flush();  // end of json text
    return true;
  }
  bool StartArray() {
    PrettyPrefix(kArrayType);
    Base::level_stack_.push_back(typename Base::Level(true));
    return Base::WriteStartArray();
  }
  bool EndArray(SizeType = 0) {
    RAPIDJSON_ASSERT(!Base::level_stack_.empty() &&
                     Base::level_stack_.back().inArray);
    bool empty = Base::level_stack_.back().valueCount == 0;
    Base::level_stack_.pop_back();
    if (!empty && !(formatOptions_ & kFormatSingleLineArray)) {
      Base::os_->Put('\n');
      WriteIndent();
    }
    bool ret = Base::WriteEndArray();
    (void)ret;
    if (Base::level_stack_.empty()) Base::os_->Flush();  // end of json text
    return true;
  }
  bool String(const Ch* str) { return String(str, Base::StrLen(str)); }
  bool Key(const Ch* str) { return Key(str, Base::StrLen(str)); }
  bool RawValue(const Ch* json, size_t length, Type type) {
    PrettyPrefix(type);
    return Base::WriteRawValue(json, length);
  }

 protected:
  void PrettyPrefix(Type type) {
    (void)type;
    if (!Base::level_stack_.empty()) {  // not at root
      typename Base::Level& level = Base::level_stack_.back();
      if (level.inArray) {
        if (level.valueCount > 0) {
          Base::os_->Put(',');
          if (formatOptions_ & kFormatSingleLineArray) Base::os_->Put(' ');
        }
        if (!(formatOptions_ & kFormatSingleLineArray)) {
          Base::os_->Put('\n');
          WriteIndent();
        }
      }
      else {  // in object
        if (level.valueCount > 0) {
          if (level.valueCount % 2 == 0) {
            Base::os_->Put(',');
            Base::os_->Put('\n');
          }
          else {
            Base::os_->Put(':');
            Base::os_->Put(' ');
          }
        }
        else
          Base::os_->Put('\n');
        if (level.valueCount % 2 == 0) WriteIndent();
      }
      if (!level.inArray && level.valueCount % 2 == 0)
        RAPIDJSON_ASSERT(type == kStringType);  // object names must be strings
      level.valueCount++;
    }
    else {
      RAPIDJSON_ASSERT(!Base::hasRoot_);  // one and only one root
      Base::hasRoot_ = true;
    }
  }

  void WriteIndent() {
    size_t count = Base::level_stack_.size() * indentCharCount_;
    PutN(*Base::os_, static_cast<Ch>(indentChar_), count);
  }

  Ch indentChar_;
  unsigned indentCharCount_;
  PrettyFormatOptions formatOptions_;
};

}  // namespace rapidjson

#endif  // RJSTUB_PRETTYWRITER_H_
