// Stub of rapidjson/writer.h -- see rapidjson.h (NOT the real library).
#ifndef RJSTUB_WRITER_H_
#define RJSTUB_WRITER_H_

#include <cmath>
#include <vector>

#include "rapidjson.h"
#include "stringbuffer.h"

namespace rapidjson {

enum WriteFlag {
  kWriteNoFlags = 0,
  kWriteValidateEncodingFlag = 1,  // not supported by the stub
  kWriteNanAndInfFlag = 2,
  kWriteDefaultFlags = kWriteNoFlags
};

namespace internal {

inline char* WriteExponent(int K, char* buffer) {
  if (K < 0) {
    *buffer++ = '-';
    K = -K;
  }
  if (K >= 100) {
    *buffer++ = static_cast<char>('0' + K / 100);
    K %= 100;
    *buffer++ = static_cast<char>('0' + K / 10);
    *buffer++ = static_cast<char>('0' + K % 10);
  }
  else if (K >= 10) {
    *buffer++ = static_cast<char>('0' + K / 10);
    *buffer++ = static_cast<char>('0' + K % 10);
  }
  else
    *buffer++ = static_cast<char>('0' + K);
  return buffer;
}

// rapidjson's Prettify: buffer holds `length` significant digits, value is
// digits * 10^k. Returns the end of the formatted text.
inline char* Prettify(char* buffer, int length, int k, int maxDecimalPlaces) {
  const int kk = length + k;  // 10^(kk-1) <= v < 10^kk
  if (0 <= k && kk <= 21) {   // 1234e7 -> 12340000000.0
    for (int i = length; i < kk; i++) buffer[i] = '0';
    buffer[kk] = '.';
    buffer[kk + 1] = '0';
    return &buffer[kk + 2];
  }
  else if (0 < kk && kk <= 21) {  // 1234e-2 -> 12.34
    std::memmove(&buffer[kk + 1], &buffer[kk], static_cast<size_t>(length - kk));
    buffer[kk] = '.';
    if (0 > k + maxDecimalPlaces) {
      // truncate (not round), then drop trailing zeros but keep one decimal
      for (int i = kk + maxDecimalPlaces; i > kk + 1; i--)
        if (buffer[i] != '0') return &buffer[i + 1];
      return &buffer[kk + 2];
    }
    return &buffer[length + 1];
  }
  else if (-6 < kk && kk <= 0) {  // 1234e-6 -> 0.001234
    const int offset = 2 - kk;
    std::memmove(&buffer[offset], &buffer[0], static_cast<size_t>(length));
    buffer[0] = '0';
    buffer[1] = '.';
    for (int i = 2; i < offset; i++) buffer[i] = '0';
    if (length - kk > maxDecimalPlaces) {
      for (int i = maxDecimalPlaces + 1; i > 2; i--)
        if (buffer[i] != '0') return &buffer[i + 1];
      return &buffer[3];
    }
    return &buffer[length + offset];
  }
  else if (kk < -maxDecimalPlaces) {  // truncates to zero
    buffer[0] = '0';
    buffer[1] = '.';
    buffer[2] = '0';
    return &buffer[3];
  }
  else if (length == 1) {  // 1e30
    buffer[1] = 'e';
    return WriteExponent(kk - 1, &buffer[2]);
  }
  else {  // 1234e30 -> 1.234e33
    std::memmove(&buffer[2], &buffer[1], static_cast<size_t>(length - 1));
    buffer[1] = '.';
    buffer[length + 1] = 'e';
    return WriteExponent(kk - 1, &buffer[0 + length + 2]);
  }
}

// Shortest decimal digits that round-trip (stand-in for Grisu2; Grisu2 is
// round-trip exact too but in rare cases one digit longer than the shortest).
inline void ShortestDigits(double value, char* buffer, int* length, int* K) {
  char tmp[40];
  for (int prec = 1; prec <= 17; prec++) {
    std::snprintf(tmp, sizeof(tmp), "%.*e", prec - 1, value);
    if (prec == 17 || std::strtod(tmp, 0) == value) break;
  }
  int n = 0;
  const char* p = tmp;
  for (; *p && *p != 'e'; ++p)
    if (*p >= '0' && *p <= '9') buffer[n++] = *p;
  int exp10 = std::atoi(p + 1);
  while (n > 1 && buffer[n - 1] == '0') n--;
  *length = n;
  *K = exp10 - (n - 1);
}

// value must be finite. buffer must hold at least 25 + 2 chars.
inline char* dtoa(double value, char* buffer, int maxDecimalPlaces = 324) {
  RAPIDJSON_ASSERT(maxDecimalPlaces >= 1);
  if (value == 0.0) {
    if (std::signbit(value)) *buffer++ = '-';
    buffer[0] = '0';
    buffer[1] = '.';
    buffer[2] = '0';
    return &buffer[3];
  }
  if (value < 0) {
    *buffer++ = '-';
    value = -value;
  }
  int length, K;
  ShortestDigits(value, buffer, &length, &K);
  return Prettify(buffer, length, K, maxDecimalPlaces);
}

}  // namespace internal

// JSON writer: SAX events in, compact JSON text out.
template <typename OutputStream, typename SourceEncoding = UTF8<>,
          typename TargetEncoding = UTF8<>, typename StackAllocator = void,
          unsigned writeFlags = kWriteDefaultFlags>
class Writer {
 public:
  typedef typename SourceEncoding::Ch Ch;
  static const int kDefaultMaxDecimalPlaces = 324;

  explicit Writer(OutputStream& os, StackAllocator* = 0, size_t = 0)
      : os_(&os), level_stack_(),
        maxDecimalPlaces_(kDefaultMaxDecimalPlaces), hasRoot_(false) {}
  explicit Writer(StackAllocator* = 0, size_t = 0)
      : os_(0), level_stack_(),
        maxDecimalPlaces_(kDefaultMaxDecimalPlaces), hasRoot_(false) {}
  virtual ~Writer() {}

  void Reset(OutputStream& os) {
    os_ = &os;
    hasRoot_ = false;
    level_stack_.clear();
  }
  bool IsComplete() const { return hasRoot_ && level_stack_.empty(); }
  int GetMaxDecimalPlaces() const { return maxDecimalPlaces_; }
  void SetMaxDecimalPlaces(int maxDecimalPlaces) {
    maxDecimalPlaces_ = maxDecimalPlaces;
  }

  bool Null() { Prefix(kNullType); return EndValue(WriteNull()); }
  bool Bool(bool b) {
    Prefix(b ? kTrueType : kFalseType);
    return EndValue(WriteBool(b));
  }
  bool Int(int i) { Prefix(kNumberType); return EndValue(WriteInt64(i)); }
  bool Uint(unsigned u) { Prefix(kNumberType); return EndValue(WriteUint64(u)); }
  bool Int64(int64_t i) { Prefix(kNumberType); return EndValue(WriteInt64(i)); }
  bool Uint64(uint64_t u) { Prefix(kNumberType); return EndValue(WriteUint64(u)); }
  // NaN/Inf without kWriteNanAndInfFlag: the separator is already written, the
  // value is not, and false is returned (as rapidjson).
  bool Double(double d) { Prefix(kNumberType); return EndValue(WriteDouble(d)); }
  bool RawNumber(const Ch* str, SizeType length, bool = false) {
    Prefix(kNumberType);
    return EndValue(WriteString(str, length));
  }
  bool String(const Ch* str, SizeType length, bool = false) {
    Prefix(kStringType);
    return EndValue(WriteString(str, length));
  }
  bool String(const std::basic_string<Ch>& str) {
    return String(str.data(), static_cast<SizeType>(str.size()));
  }
  bool StartObject() {
    Prefix(kObjectType);
    level_stack_.push_back(Level(false));
    return WriteStartObject();
  }
  bool Key(const Ch* str, SizeType length, bool copy = false) {
    return String(str, length, copy);
  }
  bool EndObject(SizeType = 0) {
    RAPIDJSON_ASSERT(!level_stack_.empty() && !level_stack_.back().inArray);
    level_stack_.pop_back();
    return EndValue(WriteEndObject());
  }
  bool StartArray() {
    Prefix(kArrayType);
    level_stack_.push_back(Level(true));
    return WriteStartArray();
  }
  bool EndArray(SizeType = 0) {
    RAPIDJSON_ASSERT(!level_stack_.empty() && level_stack_.back().inArray);
    level_stack_.pop_back();
    return EndValue(WriteEndArray());
  }
  bool String(const Ch* str) { return String(str, StrLen(str)); }
  bool Key(const Ch* str) { return Key(str, StrLen(str)); }
  bool RawValue(const Ch* json, size_t length, Type type) {
    Prefix(type);
    return EndValue(WriteRawValue(json, length));
  }

 protected:
  struct Level {
    Level(bool inArray_) : valueCount(0), inArray(inArray_) {}
    size_t valueCount;  // values in this level (names count in objects)
    bool inArray;
  };

  static SizeType StrLen(const Ch* s) {
    return static_cast<SizeType>(std::strlen(s));
  }
  void Puts(const char* s) { for (; *s; ++s) os_->Put(*s); }

  bool WriteNull() { Puts("null"); return true; }
  bool WriteBool(bool b) { Puts(b ? "true" : "false"); return true; }
  bool WriteInt64(int64_t i) {
    uint64_t u = static_cast<uint64_t>(i);
    if (i < 0) {
      os_->Put('-');
      u = ~u + 1;
    }
    return WriteUint64(u);
  }
  bool WriteUint64(uint64_t u) {
    char buf[24];
    char* p = buf + sizeof(buf);
    *--p = '\0';
    do { *--p = static_cast<char>('0' + u % 10); u /= 10; } while (u != 0);
    Puts(p);
    return true;
  }
  bool WriteDouble(double d) {
    if (std::isnan(d) || std::isinf(d)) {
      if (!(writeFlags & kWriteNanAndInfFlag)) return false;
      if (std::isnan(d)) Puts("NaN");
      else Puts(std::signbit(d) ? "-Infinity" : "Infinity");
      return true;
    }
    char buffer[48];
    char* end = internal::dtoa(d, buffer, maxDecimalPlaces_);
    for (char* p = buffer; p != end; ++p) os_->Put(*p);
    return true;
  }
  bool WriteString(const Ch* str, SizeType length) {
    static const char hexDigits[] = "0123456789ABCDEF";
    os_->Put('"');
    for (SizeType i = 0; i < length; i++) {
      const unsigned char c = static_cast<unsigned char>(str[i]);
      char esc = 0;
      switch (c) {
        case '"': esc = '"'; break;
        case '\\': esc = '\\'; break;
        case '\b': esc = 'b'; break;
        case '\f': esc = 'f'; break;
        case '\n': esc = 'n'; break;
        case '\r': esc = 'r'; break;
        case '\t': esc = 't'; break;
        default: if (c < 0x20) esc = 'u'; break;
      }
      if (!esc) { os_->Put(static_cast<Ch>(c)); continue; }  // incl. >= 0x80
      os_->Put('\\');
      os_->Put(esc);
      if (esc == 'u') {
        os_->Put('0');
        os_->Put('0');
        os_->Put(hexDigits[c >> 4]);
        os_->Put(hexDigits[c & 0xF]);
      }
    }
    os_->Put('"');
    return true;
  }
  bool WriteStartObject() { os_->Put('{'); return true; }
  bool WriteEndObject() { os_->Put('}'); return true; }
  bool WriteStartArray() { os_->Put('['); return true; }
  bool WriteEndArray() { os_->Put(']'); return true; }
  bool WriteRawValue(const Ch* json, size_t length) {
    for (size_t i = 0; i < length; i++) os_->Put(json[i]);
    return true;
  }

  void Prefix(Type type) {
    (void)type;
    if (!level_stack_.empty()) {  // not at root
      Level& level = level_stack_.back();
      if (level.valueCount > 0) {
        if (level.inArray) os_->Put(',');
        else os_->Put((level.valueCount % 2 == 0) ? ',' : ':');
      }
      if (!level.inArray && level.valueCount % 2 == 0)
        RAPIDJSON_ASSERT(type == kStringType);  // object names must be strings
      level.valueCount++;
    }
    else {
      RAPIDJSON_ASSERT(!hasRoot_);  // one and only one root
      hasRoot_ = true;
    }
  }

  // Flush the stream at the end of the JSON text.
  bool EndValue(bool ret) {
    if (level_stack_.empty()) os_->Flush();
    return ret;
  }

  OutputStream* os_;
  std::vector<Level> level_stack_;
  int maxDecimalPlaces_;
  bool hasRoot_;

 private:
  Writer(const Writer&);
  Writer& operator=(const Writer&);
};

}  // namespace rapidjson

#endif  // RJSTUB_WRITER_H_
