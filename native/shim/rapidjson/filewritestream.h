// Stub of rapidjson/filewritestream.h -- see rapidjson.h (NOT the real library).
#ifndef RJSTUB_FILEWRITESTREAM_H_
#define RJSTUB_FILEWRITESTREAM_H_

#include "rapidjson.h"

namespace rapidjson {

// Output byte stream over a FILE*, buffering in a user-supplied buffer.
// Flush() fwrite()s the pending bytes (it does not fflush the FILE*); there is
// no flush on destruction, as in rapidjson.
class FileWriteStream {
 public:
  typedef char Ch;

  FileWriteStream(std::FILE* fp, char* buffer, size_t bufferSize)
      : fp_(fp), buffer_(buffer), bufferEnd_(buffer + bufferSize),
        current_(buffer_) {
    RAPIDJSON_ASSERT(fp_ != 0);
  }

  void Put(char c) {
    if (current_ >= bufferEnd_) Flush();
    *current_++ = c;
  }

  void PutN(char c, size_t n) {
    size_t avail = static_cast<size_t>(bufferEnd_ - current_);
    while (n > avail) {
      std::memset(current_, c, avail);
      current_ += avail;
      Flush();
      n -= avail;
      avail = static_cast<size_t>(bufferEnd_ - current_);
    }
    if (n > 0) {
      std::memset(current_, c, n);
      current_ += n;
    }
  }

  void Flush() {
    if (current_ != buffer_) {
      size_t result = std::fwrite(
          buffer_, 1, static_cast<size_t>(current_ - buffer_), fp_);
      (void)result;  // failure deliberately ignored, as in rapidjson
      current_ = buffer_;
    }
  }

  // Not implemented (output-only stream).
  char Peek() const { RAPIDJSON_ASSERT(false); return 0; }
  char Take() { RAPIDJSON_ASSERT(false); return 0; }
  size_t Tell() const { RAPIDJSON_ASSERT(false); return 0; }
  char* PutBegin() { RAPIDJSON_ASSERT(false); return 0; }
  size_t PutEnd(char*) { RAPIDJSON_ASSERT(false); return 0; }

 private:
  FileWriteStream(const FileWriteStream&);
  FileWriteStream& operator=(const FileWriteStream&);

  std::FILE* fp_;
  char* buffer_;
  char* bufferEnd_;
  char* current_;
};

// rapidjson specialises PutN for FileWriteStream.
template <>
inline void PutN(FileWriteStream& stream, char c, size_t n) {
  stream.PutN(c, n);
}

}  // namespace rapidjson

#endif  // RJSTUB_FILEWRITESTREAM_H_
