// Self-test of the rapidjson stand-in in ./rapidjson (NOT the real library).
// Build: g++ -std=c++11 -g -fsanitize=address,undefined -I/verif/native/shim
//            test_stub.cpp -o test_stub && ./test_stub     -> prints "ALL OK"
#include <cmath>
#include <cstdio>
#include <cstring>
#include <iostream>
#include <sstream>
#include <string>
#include <vector>

#include "rapidjson/document.h"
#include "rapidjson/error/en.h"
#include "rapidjson/filereadstream.h"
#include "rapidjson/filewritestream.h"
#include "rapidjson/prettywriter.h"
#include "rapidjson/reader.h"
#include "rapidjson/stringbuffer.h"
#include "rapidjson/writer.h"

namespace rj = rapidjson;

static int failures = 0;
#define CHECK(cond)                                                        \
  do {                                                                     \
    if (!(cond)) {                                                         \
      failures++;                                                          \
      std::cout << "FAIL line " << __LINE__ << ": " #cond << std::endl;    \
    }                                                                      \
  } while (0)
#define CHECK_EQ(a, b)                                                     \
  do {                                                                     \
    std::ostringstream sa_, sb_;                                           \
    sa_ << (a);                                                            \
    sb_ << (b);                                                            \
    if (sa_.str() != sb_.str()) {                                          \
      failures++;                                                          \
      std::cout << "FAIL line " << __LINE__ << ": " #a " = [" << sa_.str() \
                << "] expected [" << sb_.str() << "]" << std::endl;        \
    }                                                                      \
  } while (0)

// Records SAX events as text; `stopAfter` >= 0 makes the n-th event return false.
struct Rec : public rj::BaseReaderHandler<rj::UTF8<>, Rec> {
  std::ostringstream out;
  int stopAfter;
  int count;
  bool unify;  // print all integer events alike (Accept replays 5 as Int, the reader as Uint)
  Rec() : out(), stopAfter(-1), count(0), unify(false) {}
  bool ev() { return count++ != stopAfter; }
  bool Null() { out << "N "; return ev(); }
  bool Bool(bool b) { out << (b ? "T " : "F "); return ev(); }
  bool Int(int i) { out << (unify ? "#" : "I") << i << " "; return ev(); }
  bool Uint(unsigned u) { out << (unify ? "#" : "U") << u << " "; return ev(); }
  bool Int64(int64_t i) { out << (unify ? "#" : "I64:") << i << " "; return ev(); }
  bool Uint64(uint64_t u) { out << (unify ? "#" : "U64:") << u << " "; return ev(); }
  bool Double(double d) {
    char buf[64];
    std::snprintf(buf, sizeof(buf), "%.17g", d);
    out << "D" << (std::signbit(d) && d == 0 ? "-0" : buf) << " ";
    return ev();
  }
  bool String(const char* s, rj::SizeType n, bool copy) {
    CHECK(copy);
    CHECK(s[n] == '\0');  // NUL-terminated, as rapidjson
    out << "S" << n << ":" << std::string(s, n) << " ";
    return ev();
  }
  bool Key(const char* s, rj::SizeType n, bool copy) {
    CHECK(copy);
    out << "K" << n << ":" << std::string(s, n) << " ";
    return ev();
  }
  bool StartObject() { out << "{ "; return ev(); }
  bool EndObject(rj::SizeType n) { out << "}" << n << " "; return ev(); }
  bool StartArray() { out << "[ "; return ev(); }
  bool EndArray(rj::SizeType n) { out << "]" << n << " "; return ev(); }
};

struct Res {
  std::string events;
  rj::ParseErrorCode code;
  size_t offset;
  size_t tell;
};

template <unsigned flags>
Res sax(const char* text, int stopAfter = -1) {
  rj::Reader reader;
  rj::StringStream ss(text);
  Rec h;
  h.stopAfter = stopAfter;
  rj::ParseResult r = reader.Parse<flags>(ss, h);
  Res out;
  out.events = h.out.str();
  out.code = reader.GetParseErrorCode();
  out.offset = reader.GetErrorOffset();
  out.tell = ss.Tell();
  CHECK(r.Code() == out.code && r.Offset() == out.offset);
  CHECK(reader.HasParseError() == (out.code != rj::kParseErrorNone));
  bool ok = r;
  CHECK(ok == !reader.HasParseError());
  return out;
}

static std::string ev(const char* text) {
  Res r = sax<rj::kParseNoFlags>(text);
  CHECK_EQ(r.code, rj::kParseErrorNone);
  return r.events;
}

#define ERR(flags, text, ecode, eoffset)     \
  do {                                       \
    Res r_ = sax<flags>(text);               \
    CHECK_EQ(r_.code, rj::ecode);            \
    CHECK_EQ(r_.offset, (size_t)(eoffset));  \
  } while (0)

static void test_numbers() {
  CHECK_EQ(ev("0"), "U0 ");
  CHECK_EQ(ev("-0"), "I0 ");
  CHECK_EQ(ev("-0.0"), "D-0 ");
  CHECK_EQ(ev("5"), "U5 ");
  CHECK_EQ(ev("-5"), "I-5 ");
  CHECK_EQ(ev("2147483647"), "U2147483647 ");
  CHECK_EQ(ev("2147483648"), "U2147483648 ");
  CHECK_EQ(ev("4294967295"), "U4294967295 ");
  CHECK_EQ(ev("4294967296"), "U64:4294967296 ");
  CHECK_EQ(ev("-2147483648"), "I-2147483648 ");
  CHECK_EQ(ev("-2147483649"), "I64:-2147483649 ");
  CHECK_EQ(ev("9223372036854775807"), "U64:9223372036854775807 ");
  CHECK_EQ(ev("9223372036854775808"), "U64:9223372036854775808 ");
  CHECK_EQ(ev("18446744073709551615"), "U64:18446744073709551615 ");
  CHECK_EQ(ev("18446744073709551616"), "D1.8446744073709552e+19 ");
  CHECK_EQ(ev("-9223372036854775808"), "I64:-9223372036854775808 ");
  CHECK_EQ(ev("-9223372036854775809"), "D-9.2233720368547758e+18 ");
  CHECK_EQ(ev("123456789012345678901234567890"), "D1.2345678901234568e+29 ");
  CHECK_EQ(ev("0.1"), "D0.10000000000000001 ");
  CHECK_EQ(ev("1E+2"), "D100 ");
  CHECK_EQ(ev("1e-2"), "D0.01 ");
  CHECK_EQ(ev("-1.5e3"), "D-1500 ");
  CHECK_EQ(ev("5e-324"), "D4.9406564584124654e-324 ");
  CHECK_EQ(ev("1e-400"), "D0 ");
  CHECK_EQ(ev("1e-99999999999"), "D0 ");
  CHECK_EQ(ev("0.30000000000000004"), "D0.30000000000000004 ");
  CHECK_EQ(ev("1.7976931348623157e308"), "D1.7976931348623157e+308 ");
  CHECK_EQ(ev("123.456789012345678901234567890"), "D123.45678901234568 ");
  CHECK_EQ(ev("[1,-1,1.0]"), "[ U1 I-1 D1 ]3 ");
  ERR(rj::kParseNoFlags, "1e400", kParseErrorNumberTooBig, 0);
  ERR(rj::kParseNoFlags, " [1e309]", kParseErrorNumberTooBig, 2);
  ERR(rj::kParseNoFlags, "0.1e310", kParseErrorNumberTooBig, 0);  // maxExp = 308 - expFrac = 309
  CHECK_EQ(ev("0.1e309"), "D1e+308 ");
  CHECK_EQ(ev("0.01e310"), "D1e+308 ");  // exp == maxExp is still accepted
  {  // a 400-digit integer overflows while accumulating
    std::string big(400, '9');
    ERR(rj::kParseNoFlags, big.c_str(), kParseErrorNumberTooBig, 0);
  }
  // NaN / Inf only with the flag
  CHECK_EQ(sax<rj::kParseNanAndInfFlag>("[NaN,Inf,Infinity,-Inf,-Infinity]").events,
           "[ Dnan Dinf Dinf D-inf D-inf ]5 ");
  ERR(rj::kParseNoFlags, "NaN", kParseErrorValueInvalid, 0);
  ERR(rj::kParseNoFlags, "-Infinity", kParseErrorValueInvalid, 1);
  ERR(rj::kParseNanAndInfFlag, "Nan", kParseErrorValueInvalid, 2);
  ERR(rj::kParseNanAndInfFlag, "Infinit", kParseErrorValueInvalid, 7);
  ERR(rj::kParseNanAndInfFlag, "Infx", kParseErrorDocumentRootNotSingular, 3);
}

static void test_strings() {
  CHECK_EQ(ev("\"\""), "S0: ");
  CHECK_EQ(ev("\"a\\\"b\\\\c\\/d\\be\\ff\\ng\\rh\\ti\""),
           std::string("S17:a\"b\\c/d\be\ff\ng\rh\ti "));
  CHECK_EQ(ev("\"\\u0041\\u00e9\\u20AC\\uD834\\uDD1E\""),
           "S10:A\xC3\xA9\xE2\x82\xAC\xF0\x9D\x84\x9E ");
  CHECK_EQ(ev("\"\\u0000x\"").size(), std::string("S2:?x ").size());  // embedded NUL kept
  CHECK_EQ(ev("\"\xff\xfe\x80 raw\""), "S7:\xff\xfe\x80 raw ");  // no UTF-8 validation
  CHECK_EQ(ev("\"\\uDC00\""), "S3:\xED\xB0\x80 ");  // lone low surrogate passes in 1.1.0
  CHECK_EQ(ev("{\"k\\n\":\"v\"}"), "{ K2:k\n S1:v }1 ");
  ERR(rj::kParseNoFlags, "\"ab\\u12G4\"", kParseErrorStringUnicodeEscapeInvalidHex, 3);
  ERR(rj::kParseNoFlags, "\"\\uD800x\"", kParseErrorStringUnicodeSurrogateInvalid, 1);
  ERR(rj::kParseNoFlags, "\"\\uD800\\u0041\"", kParseErrorStringUnicodeSurrogateInvalid, 1);
  ERR(rj::kParseNoFlags, "\"a\\qb\"", kParseErrorStringEscapeInvalid, 2);
  ERR(rj::kParseNoFlags, "\"abc", kParseErrorStringMissQuotationMark, 4);
  ERR(rj::kParseNoFlags, "\"abc\\", kParseErrorStringEscapeInvalid, 4);
  ERR(rj::kParseNoFlags, "\"a\nb\"", kParseErrorStringInvalidEncoding, 2);
  ERR(rj::kParseNoFlags, "\"a\x1f\"", kParseErrorStringInvalidEncoding, 2);
}

static void test_structure_and_errors() {
  CHECK_EQ(ev(" \t\r\n{ \"a\" : [ null , true , false ] , \"b\" : { } , \"c\":[]} \n"),
           "{ K1:a [ N T F ]3 K1:b { }0 K1:c [ ]0 }3 ");
  CHECK_EQ(ev("[[[[]]]]"), "[ [ [ [ ]0 ]1 ]1 ]1 ");
  CHECK_EQ(ev("{\"a\":1,\"a\":2}"), "{ K1:a U1 K1:a U2 }2 ");
  ERR(rj::kParseNoFlags, "", kParseErrorDocumentEmpty, 0);
  ERR(rj::kParseNoFlags, "  \n ", kParseErrorDocumentEmpty, 4);
  ERR(rj::kParseNoFlags, "[] 1", kParseErrorDocumentRootNotSingular, 3);
  ERR(rj::kParseNoFlags, "01", kParseErrorDocumentRootNotSingular, 1);
  ERR(rj::kParseNoFlags, "nul", kParseErrorValueInvalid, 3);
  ERR(rj::kParseNoFlags, "nulx", kParseErrorValueInvalid, 3);
  ERR(rj::kParseNoFlags, "tru", kParseErrorValueInvalid, 3);
  ERR(rj::kParseNoFlags, "fals ", kParseErrorValueInvalid, 4);
  ERR(rj::kParseNoFlags, "x", kParseErrorValueInvalid, 0);
  ERR(rj::kParseNoFlags, "-", kParseErrorValueInvalid, 1);
  ERR(rj::kParseNoFlags, "-x", kParseErrorValueInvalid, 1);
  ERR(rj::kParseNoFlags, "[1,]", kParseErrorValueInvalid, 3);
  ERR(rj::kParseNoFlags, "{1:2}", kParseErrorObjectMissName, 1);
  ERR(rj::kParseNoFlags, "{\"a\":1,}", kParseErrorObjectMissName, 7);
  ERR(rj::kParseNoFlags, "{\"a\" 1}", kParseErrorObjectMissColon, 5);
  ERR(rj::kParseNoFlags, "{\"a\"", kParseErrorObjectMissColon, 4);
  ERR(rj::kParseNoFlags, "{\"a\":1 \"b\"}", kParseErrorObjectMissCommaOrCurlyBracket, 7);
  ERR(rj::kParseNoFlags, "{\"a\":1", kParseErrorObjectMissCommaOrCurlyBracket, 6);
  ERR(rj::kParseNoFlags, "[1 2]", kParseErrorArrayMissCommaOrSquareBracket, 3);
  ERR(rj::kParseNoFlags, "[1", kParseErrorArrayMissCommaOrSquareBracket, 2);
  ERR(rj::kParseNoFlags, "[1,", kParseErrorValueInvalid, 3);
  ERR(rj::kParseNoFlags, "1.", kParseErrorNumberMissFraction, 2);
  ERR(rj::kParseNoFlags, "1.e5", kParseErrorNumberMissFraction, 2);
  ERR(rj::kParseNoFlags, "1e", kParseErrorNumberMissExponent, 2);
  ERR(rj::kParseNoFlags, "1e+", kParseErrorNumberMissExponent, 3);
  ERR(rj::kParseNoFlags, ".5", kParseErrorValueInvalid, 0);
  // Handler returning false at each event index -> kParseErrorTermination
  const char* doc = "{\"a\":[1,\"s\",null,true,1.5,-1]}";
  for (int stop = 0; stop < 11; stop++) {  // the document has 11 events
    Res r = sax<rj::kParseNoFlags>(doc, stop);
    CHECK_EQ(r.code, rj::kParseErrorTermination);
  }
  CHECK_EQ(sax<rj::kParseNoFlags>(doc, 11).code, rj::kParseErrorNone);
  CHECK_EQ(std::string(rj::GetParseError_En(rj::kParseErrorTermination)),
           "Terminate parsing due to Handler error.");
  CHECK_EQ(std::string(rj::GetParseError_En(rj::kParseErrorDocumentEmpty)),
           "The document is empty.");
  CHECK_EQ(std::string(rj::GetParseError_En(rj::kParseErrorNone)), "No error.");
  CHECK_EQ((int)rj::kParseErrorUnspecificSyntaxError, 17);
}

// Multi-document parsing with kParseStopWhenDoneFlag, as awkward's do_parse.
template <typename Stream>
static void multidoc(Stream& is, const char* label) {
  // text: `[1] {"a":2}  3 "x"\n\n`
  rj::Reader reader;
  const size_t tells[] = {3, 11, 14, 18};
  const char* events[] = {"[ U1 ]1 ", "{ K1:a U2 }1 ", "U3 ", "S1:x "};
  for (int i = 0; i < 4; i++) {
    Rec h;
    bool ok = reader.Parse<rj::kParseStopWhenDoneFlag>(is, h);
    CHECK(ok);
    CHECK_EQ(h.out.str(), events[i]);
    CHECK_EQ(is.Tell(), tells[i]);
    if (is.Tell() != tells[i]) std::cout << "  (" << label << " doc " << i << ")\n";
  }
  CHECK(is.Peek() == '\n');
  Rec h;
  bool ok = reader.Parse<rj::kParseStopWhenDoneFlag>(is, h);
  CHECK(!ok);
  CHECK_EQ(reader.GetParseErrorCode(), rj::kParseErrorDocumentEmpty);
  CHECK_EQ(reader.GetErrorOffset(), (size_t)20);
  CHECK_EQ(h.out.str(), "");
  CHECK(is.Peek() == '\0');
  CHECK_EQ(is.Tell(), (size_t)20);
}

template <typename Stream>
static void truncated(Stream& is, const char* label) {
  // text: `[1] tru`
  rj::Reader reader;
  Rec h1, h2;
  bool ok = reader.Parse<rj::kParseStopWhenDoneFlag>(is, h1);
  CHECK(ok);
  CHECK_EQ(is.Tell(), (size_t)3);
  ok = reader.Parse<rj::kParseStopWhenDoneFlag>(is, h2);
  CHECK(!ok);
  CHECK_EQ(reader.GetParseErrorCode(), rj::kParseErrorValueInvalid);
  CHECK_EQ(reader.GetErrorOffset(), (size_t)7);
  CHECK_EQ(h2.out.str(), "");
  CHECK(is.Peek() == '\0');
  (void)label;
}

static void test_streams() {
  const char* text = "[1] {\"a\":2}  3 \"x\"\n\n";
  { rj::StringStream ss(text); multidoc(ss, "StringStream"); }
  { rj::StringStream ss("[1] tru"); truncated(ss, "StringStream"); }
  const size_t sizes[] = {4, 5, 7, 64};
  for (int k = 0; k < 4; k++) {
    std::vector<char> buf(sizes[k]);
    FILE* fp = fmemopen(const_cast<char*>(text), std::strlen(text), "r");
    { rj::FileReadStream fs(fp, buf.data(), buf.size()); multidoc(fs, "FileReadStream"); }
    std::fclose(fp);
    const char* t2 = "[1] tru";
    fp = fmemopen(const_cast<char*>(t2), std::strlen(t2), "r");
    { rj::FileReadStream fs(fp, buf.data(), buf.size()); truncated(fs, "FileReadStream"); }
    std::fclose(fp);
    // exact-multiple-of-buffer length and empty file
    const char* t3 = "12345678";
    fp = fmemopen(const_cast<char*>(t3), 8, "r");
    {
      rj::FileReadStream fs(fp, buf.data(), buf.size());
      std::string got;
      while (fs.Peek() != '\0') { CHECK_EQ(fs.Tell(), got.size()); got.push_back(fs.Take()); }
      CHECK_EQ(got, "12345678");
      CHECK_EQ(fs.Tell(), (size_t)8);
      fs.Take();  // taking at EOF stays at EOF
      CHECK(fs.Peek() == '\0');
    }
    std::fclose(fp);
  }
  {  // FileWriteStream: small buffer, flush at end of root value
    char out[256];
    std::memset(out, 0, sizeof(out));
    FILE* fp = fmemopen(out, sizeof(out), "w");
    std::setvbuf(fp, 0, _IONBF, 0);
    char buf[5];
    rj::FileWriteStream ws(fp, buf, sizeof(buf));
    rj::Writer<rj::FileWriteStream> w(ws);
    w.StartArray();
    w.String("hello world");
    w.Int(12345);
    CHECK_EQ(std::string(out), "[\"hello world\",");  // 15 bytes flushed in 5-byte chunks
    w.EndArray();
    CHECK_EQ(std::string(out), "[\"hello world\",12345]");
    CHECK(w.IsComplete());
    std::fclose(fp);
  }
  {  // PrettyWriter over FileWriteStream (PutN path for the indent)
    char out[256];
    std::memset(out, 0, sizeof(out));
    FILE* fp = fmemopen(out, sizeof(out), "w");
    std::setvbuf(fp, 0, _IONBF, 0);
    char buf[6];
    rj::FileWriteStream ws(fp, buf, sizeof(buf));
    rj::PrettyWriter<rj::FileWriteStream> w(ws);
    w.StartObject(); w.Key("a"); w.StartArray(); w.Uint(1); w.EndArray(); w.EndObject();
    CHECK_EQ(std::string(out), "{\n    \"a\": [\n        1\n    ]\n}");
    std::fclose(fp);
  }
}

static std::string dbl(double d, int maxdec = -1) {
  rj::StringBuffer sb;
  rj::Writer<rj::StringBuffer> w(sb);
  if (maxdec >= 0) w.SetMaxDecimalPlaces(maxdec);
  CHECK(w.Double(d));
  return sb.GetString();
}

static void test_writer() {
  CHECK_EQ(dbl(1.0), "1.0");
  CHECK_EQ(dbl(0.0), "0.0");
  CHECK_EQ(dbl(-0.0), "-0.0");
  CHECK_EQ(dbl(0.1), "0.1");
  CHECK_EQ(dbl(-2.5), "-2.5");
  CHECK_EQ(dbl(1e21), "1e21");
  CHECK_EQ(dbl(1e20), "100000000000000000000.0");
  CHECK_EQ(dbl(1.5e-7), "1.5e-7");
  CHECK_EQ(dbl(1e-6), "0.000001");
  CHECK_EQ(dbl(1e-7), "1e-7");
  CHECK_EQ(dbl(0.000123), "0.000123");
  CHECK_EQ(dbl(123456789012345680000.0), "123456789012345680000.0");
  CHECK_EQ(dbl(1234567890123456800000.0), "1.2345678901234568e21");
  CHECK_EQ(dbl(5e-324), "5e-324");
  CHECK_EQ(dbl(1.7976931348623157e308), "1.7976931348623157e308");
  CHECK_EQ(dbl(2.2250738585072014e-308), "2.2250738585072014e-308");
  CHECK_EQ(dbl(0.30000000000000004), "0.30000000000000004");
  CHECK_EQ(dbl(3.141592653589793), "3.141592653589793");
  CHECK_EQ(dbl(1e100), "1e100");
  CHECK_EQ(dbl(1.25e-10), "1.25e-10");
  CHECK_EQ(dbl(12345.678), "12345.678");
  // SetMaxDecimalPlaces: truncation (not rounding), rapidjson's documented examples
  CHECK_EQ(dbl(1.2345, 2), "1.23");
  CHECK_EQ(dbl(1.102, 2), "1.1");
  CHECK_EQ(dbl(1.999, 2), "1.99");
  CHECK_EQ(dbl(1.00001, 2), "1.0");
  CHECK_EQ(dbl(0.123, 2), "0.12");
  CHECK_EQ(dbl(0.102, 2), "0.1");
  CHECK_EQ(dbl(0.001, 2), "0.0");
  CHECK_EQ(dbl(-0.001, 2), "-0.0");
  CHECK_EQ(dbl(1e-10, 3), "0.0");
  CHECK_EQ(dbl(123.0, 3), "123.0");
  CHECK_EQ(dbl(1.5e30, 3), "1.5e30");
  CHECK_EQ(dbl(3.14159, 10), "3.14159");
  {  // NaN: separator written, value not, returns false
    rj::StringBuffer sb;
    rj::Writer<rj::StringBuffer> w(sb);
    w.StartArray();
    w.Int(1);
    CHECK(!w.Double(std::nan("")));
    CHECK(!w.Double(INFINITY));
    w.EndArray();
    CHECK_EQ(std::string(sb.GetString()), "[1,,]");
  }
  {
    rj::StringBuffer sb;
    rj::Writer<rj::StringBuffer> w(sb);
    CHECK(!w.IsComplete());
    w.StartObject();
    w.Key("a"); w.StartArray(); w.Null(); w.Bool(true); w.Bool(false); w.EndArray();
    w.Key("b", 1); w.StartObject(); w.EndObject();
    w.Key("c"); w.StartArray(); w.EndArray(0);
    w.Key("i"); w.Int(-2147483647 - 1);
    w.Key("u"); w.Uint(4294967295u);
    w.Key("i64"); w.Int64(INT64_MIN);
    w.Key("u64"); w.Uint64(UINT64_MAX);
    w.Key("s"); w.String("q\"b\\/\b\f\n\r\t\x01\x1f\x7f\xc3\xa9");
    w.Key("n"); w.String("a\0b", 3);
    w.Key("r"); w.RawValue("[1, 2]", 6, rj::kArrayType);
    CHECK(!w.IsComplete());
    w.EndObject(99);
    CHECK(w.IsComplete());
    CHECK_EQ(std::string(sb.GetString(), sb.GetSize()),
             "{\"a\":[null,true,false],\"b\":{},\"c\":[],\"i\":-2147483648,\"u\":4294967295,"
             "\"i64\":-9223372036854775808,\"u64\":18446744073709551615,"
             "\"s\":\"q\\\"b\\\\/\\b\\f\\n\\r\\t\\u0001\\u001F\x7f\xc3\xa9\","
             "\"n\":\"a\\u0000b\",\"r\":[1, 2]}");
    CHECK_EQ(sb.GetSize(), std::strlen(sb.GetString()));
    sb.Clear();
    w.Reset(sb);
    w.Int(7);
    CHECK_EQ(std::string(sb.GetString()), "7");
  }
  {
    rj::StringBuffer sb;
    rj::PrettyWriter<rj::StringBuffer> w(sb);
    w.StartObject();
    w.Key("a"); w.StartArray(); w.Int(1); w.Double(2.5); w.StartArray(); w.EndArray(); w.EndArray();
    w.Key("b"); w.StartObject(); w.EndObject();
    w.Key("c"); w.StartObject(); w.Key("d"); w.Null(); w.EndObject();
    w.EndObject();
    CHECK_EQ(std::string(sb.GetString()),
             "{\n    \"a\": [\n        1,\n        2.5,\n        []\n    ],\n    \"b\": {},\n"
             "    \"c\": {\n        \"d\": null\n    }\n}");
  }
  {
    rj::StringBuffer sb;
    rj::PrettyWriter<rj::StringBuffer> w(sb);
    w.SetIndent('\t', 1).SetFormatOptions(rj::kFormatSingleLineArray);
    w.StartObject(); w.Key("a"); w.StartArray(); w.Int(1); w.Int(2); w.EndArray(); w.EndObject();
    CHECK_EQ(std::string(sb.GetString()), "{\n\t\"a\": [1, 2]\n}");
  }
}

static bool jeq(const char* a, const char* b) {
  rj::Document x, y;
  x.Parse<rj::kParseNanAndInfFlag>(a);
  y.Parse<rj::kParseNanAndInfFlag>(b);
  CHECK((x == y) == (y == x));
  CHECK((x != y) == !(x == y));
  return x == y;
}

static void test_dom() {
  rj::Document d;
  CHECK(d.IsNull());
  d.Parse("{\"i\":5,\"n\":-5,\"big\":3000000000,\"d\":5.0,\"huge\":18446744073709551615,"
          "\"s\":\"a\\u0000b\",\"arr\":[1,[2],{\"x\":null}],\"t\":true,\"f\":false,\"z\":null,"
          "\"neg64\":-3000000000,\"o\":{}}");
  CHECK(!d.HasParseError());
  CHECK_EQ(d.GetParseError(), rj::kParseErrorNone);
  CHECK(d.IsObject() && d.GetType() == rj::kObjectType && d.MemberCount() == 12);
  const rj::Value& i = d["i"];
  CHECK(i.IsNumber() && i.IsInt() && i.IsUint() && i.IsInt64() && i.IsUint64() && !i.IsDouble());
  CHECK(i.GetInt() == 5 && i.GetUint() == 5u && i.GetInt64() == 5 && i.GetUint64() == 5u && i.GetDouble() == 5.0);
  const rj::Value& n = d["n"];
  CHECK(n.IsInt() && !n.IsUint() && n.IsInt64() && !n.IsUint64() && !n.IsDouble());
  CHECK(n.GetInt() == -5 && n.GetInt64() == -5 && n.GetDouble() == -5.0);
  const rj::Value& big = d["big"];
  CHECK(!big.IsInt() && big.IsUint() && big.IsInt64() && big.IsUint64() && !big.IsDouble());
  CHECK(big.GetUint() == 3000000000u && big.GetInt64() == INT64_C(3000000000));
  const rj::Value& dd = d["d"];
  CHECK(dd.IsNumber() && dd.IsDouble() && !dd.IsInt() && !dd.IsUint() && !dd.IsInt64() && !dd.IsUint64());
  CHECK(dd.GetDouble() == 5.0 && dd.GetType() == rj::kNumberType);
  const rj::Value& huge = d["huge"];
  CHECK(!huge.IsInt() && !huge.IsUint() && !huge.IsInt64() && huge.IsUint64());
  CHECK(huge.GetUint64() == UINT64_MAX && huge.GetDouble() == 18446744073709551616.0);
  const rj::Value& neg64 = d["neg64"];
  CHECK(!neg64.IsInt() && !neg64.IsUint() && neg64.IsInt64() && !neg64.IsUint64());
  CHECK(d["s"].IsString() && d["s"].GetStringLength() == 3 && std::strcmp(d["s"].GetString(), "a") == 0);
  CHECK(d["t"].IsBool() && d["t"].IsTrue() && d["t"].GetBool() && d["t"].GetType() == rj::kTrueType);
  CHECK(d["f"].IsBool() && d["f"].IsFalse() && !d["f"].GetBool() && d["f"].GetType() == rj::kFalseType);
  CHECK(d["z"].IsNull() && !d["z"].IsBool() && !d["z"].IsNumber());
  CHECK(d.HasMember("arr") && !d.HasMember("nope") && d.HasMember(std::string("o")));
  CHECK(d.FindMember("nope") == d.MemberEnd());
  CHECK(d.FindMember("n") == d.MemberBegin() + 1);
  CHECK(d[std::string("i")].GetInt() == 5);
  const rj::Value& arr = d["arr"];
  CHECK(arr.IsArray() && arr.Size() == 3 && !arr.Empty() && arr[0].GetInt() == 1);
  CHECK(arr[1].IsArray() && arr[1][0].GetInt() == 2 && arr[2]["x"].IsNull());
  CHECK(arr.End() - arr.Begin() == 3);
  CHECK(d["o"].IsObject() && d["o"].ObjectEmpty() && d["o"].MemberBegin() == d["o"].MemberEnd());
  std::string names;
  for (auto& m : static_cast<const rj::Value&>(d).GetObject()) {
    names += m.name.GetString();
    names += ",";
    (void)m.value.GetType();
  }
  CHECK_EQ(names, "i,n,big,d,huge,s,arr,t,f,z,neg64,o,");
  int cnt = 0;
  for (auto& v : arr.GetArray()) cnt += (int)v.GetType();
  CHECK_EQ(cnt, (int)rj::kNumberType + (int)rj::kArrayType + (int)rj::kObjectType);
  for (rj::Value::ConstMemberIterator it = d.MemberBegin(); it != d.MemberEnd(); ++it) cnt++;
  for (auto it = arr[2].MemberBegin(); it != arr[2].MemberEnd(); ++it) CHECK(it->value.IsNull());
  CHECK(d.GetObject().HasMember("i") && d["arr"].GetArray().Size() == 3);

  // Accept round trip reproduces compact text
  const char* texts[] = {
      "{\"a\":[1,-2,3000000000,-3000000000,18446744073709551615,1.5,1e300,\"x\\n\\u0001\",null,true,false],\"b\":{},\"c\":[]}",
      "[]", "{}", "null", "\"s\"", "-0.0", "[[[[1]]],{\"a\":{\"b\":{\"c\":[]}}}]", "0.1", "123"};
  for (size_t k = 0; k < sizeof(texts) / sizeof(texts[0]); k++) {
    rj::Document x;
    x.Parse<rj::kParseNanAndInfFlag>(texts[k]);
    CHECK(!x.HasParseError());
    rj::StringBuffer sb;
    rj::Writer<rj::StringBuffer> w(sb);
    CHECK(x.Accept(w));
    CHECK_EQ(std::string(sb.GetString()), texts[k]);
    Rec r, direct;
    r.unify = direct.unify = true;
    x.Accept(r);
    rj::Reader reader;
    rj::StringStream ss(texts[k]);
    reader.Parse<rj::kParseNanAndInfFlag>(ss, direct);
    CHECK_EQ(r.out.str(), direct.out.str());  // DOM replay == direct SAX (modulo int width)
  }
  {  // Accept checks IsInt before IsUint: a parsed 5 is replayed as Int(5) (rapidjson does so)
    rj::Document x;
    x.Parse("[5,3000000000]");
    Rec r;
    x.Accept(r);
    CHECK_EQ(r.out.str(), "[ I5 U3000000000 ]2 ");
  }
  {  // pretty-printing a DOM
    rj::Document x;
    x.Parse("{\"a\":[1,2],\"b\":{}}");
    rj::StringBuffer sb;
    rj::PrettyWriter<rj::StringBuffer> w(sb);
    x.Accept(w);
    CHECK_EQ(std::string(sb.GetString()), "{\n    \"a\": [\n        1,\n        2\n    ],\n    \"b\": {}\n}");
  }
  // Errors: document keeps its previous value (null), reports code and offset
  rj::Document e;
  e.Parse("[1,");
  CHECK(e.HasParseError() && e.IsNull());
  CHECK_EQ(e.GetParseError(), rj::kParseErrorValueInvalid);
  CHECK_EQ(e.GetErrorOffset(), (size_t)3);
  e.Parse("[1] x");
  CHECK_EQ(e.GetParseError(), rj::kParseErrorDocumentRootNotSingular);
  CHECK(e.IsNull());
  e.Parse<rj::kParseStopWhenDoneFlag>("[1] x");
  CHECK(!e.HasParseError() && e.IsArray() && e.Size() == 1);
  e.Parse("NaN");
  CHECK(e.HasParseError() && e.IsArray());  // unchanged by the failed parse
  e.Parse<rj::kParseNanAndInfFlag>("NaN");
  CHECK(!e.HasParseError() && e.IsDouble() && std::isnan(e.GetDouble()));
  e.Parse("\"str\"");
  CHECK(e.IsString() && e == "str" && e != "other" && e == std::string("str"));

  // Equality
  CHECK(jeq("{\"a\":1,\"b\":[1,2]}", " { \"b\" : [1, 2], \"a\" : 1 } "));
  CHECK(!jeq("[1,2]", "[2,1]"));
  CHECK(!jeq("[1,2]", "[1,2,3]"));
  CHECK(!jeq("{\"a\":1}", "{\"a\":1,\"b\":2}"));
  CHECK(!jeq("{\"a\":1}", "{\"b\":1}"));
  CHECK(jeq("1", "1.0"));
  CHECK(jeq("-3", "-3.0"));
  CHECK(!jeq("1", "2"));
  CHECK(!jeq("1", "-1"));
  CHECK(jeq("18446744073709551615", "18446744073709551615"));
  CHECK(jeq("4294967296", "4294967296.0"));
  CHECK(!jeq("NaN", "NaN"));
  CHECK(jeq("Infinity", "Inf"));
  CHECK(!jeq("Infinity", "-Infinity"));
  CHECK(jeq("\"a\"", "\"\\u0061\""));
  CHECK(!jeq("\"a\"", "\"b\""));
  CHECK(!jeq("true", "false"));
  CHECK(jeq("true", "true"));
  CHECK(jeq("null", "null"));
  CHECK(!jeq("null", "0"));
  CHECK(!jeq("\"1\"", "1"));
  CHECK(!jeq("[]", "{}"));
  CHECK(jeq("-1", "18446744073709551615"));  // rapidjson 1.1.0 quirk: integers compare by 64-bit pattern
  CHECK(jeq("garbage", "null"));  // failed parse leaves null
  CHECK(jeq("[{\"x\":[1.5,null]}]", "[{\"x\":[1.5,null]}]"));
}

int main() {
  test_numbers();
  test_strings();
  test_structure_and_errors();
  test_streams();
  test_writer();
  test_dom();
  if (failures == 0) {
    std::cout << "ALL OK" << std::endl;
    return 0;
  }
  std::cout << failures << " FAILURE(S)" << std::endl;
  return 1;
}
