// ForthMachine32/64 wrapper (DESIGN.md section 5).  Real code: everything under awkward/forth.
#include "awsim_core.h"

#include "awkward/forth/ForthMachine.h"

#include <sys/mman.h>

namespace ak = awkward;

namespace {
  struct FM {
    int width;
    std::shared_ptr<ak::ForthMachine32> m32;
    std::shared_ptr<ak::ForthMachine64> m64;
    // name -> (bytes, n); every begin/run wraps them in fresh ForthInputBuffers (position 0)
    std::vector<std::pair<std::string, std::pair<std::shared_ptr<uint8_t>, long>>> inputs;
    // pristine copy to detect writes into the input bytes
    std::vector<std::vector<uint8_t>> pristine;
    // the input bytes start this far into their buffer (a view, as Python hands over a slice of a larger buffer)
    std::vector<long> offsets;
  };

  std::map<std::string, std::shared_ptr<ak::ForthInputBuffer>> make_inputs(FM& fm) {
    std::map<std::string, std::shared_ptr<ak::ForthInputBuffer>> out;
    for (size_t i = 0;  i < fm.inputs.size();  i++) {
      auto& pr = fm.inputs[i];
      out[pr.first] = std::make_shared<ak::ForthInputBuffer>(
          std::static_pointer_cast<void>(pr.second.first), (int64_t)fm.offsets[i], (int64_t)pr.second.second);
    }
    return out;
  }

  template <typename M>
  int do_what(M& m, FM& fm, int what, long count, long* done) {
    ak::util::ForthError err = ak::util::ForthError::none;
    *done = 0;
    switch (what) {
      case 0:  // begin
        m.begin(make_inputs(fm));
        break;
      case 1:  // run
        err = m.run(make_inputs(fm));
        break;
      case 2:  // step x count (stops early on any error code)
        for (long i = 0;  i < count;  i++) {
          err = m.step();
          (*done)++;
          if (err != ak::util::ForthError::none) break;
          if (m.is_done()) break;
        }
        break;
      case 3:  // resume
        err = m.resume();
        break;
      case 4:  // reset
        m.reset();
        break;
      case 5:  // begin without inputs
        m.begin();
        break;
      case 6:  // run without inputs
        err = m.run();
        break;
      default:
        throw awsim::HarnessError("aws_fm_do: unknown action");
    }
    return (int)err;
  }

  template <typename M>
  void state_json(const M& m, const FM& fm, std::string& out) {
    out += "{\"ready\":";
    out += m.is_ready() ? "true" : "false";
    out += ",\"done\":";
    out += m.is_done() ? "true" : "false";
    out += ",\"stack\":[";
    auto st = m.stack();
    for (size_t i = 0;  i < st.size();  i++) {
      if (i) out.push_back(',');
      out += std::to_string((long long)st[i]);
    }
    out += "],\"vars\":[";
    auto vnames = m.variable_index();
    for (size_t i = 0;  i < vnames.size();  i++) {
      if (i) out.push_back(',');
      out += std::to_string((long long)m.variable_at((int64_t)i));
    }
    out += "],\"outs\":[";
    auto onames = m.output_index();
    auto outs = m.outputs();     // empty after reset()
    bool first = true;
    for (size_t i = 0;  i < onames.size();  i++) {
      auto it = outs.find(onames[i]);
      if (it == outs.end()) continue;
      if (!first) out.push_back(',');
      first = false;
      ak::ContentPtr arr = it->second->toNumpyArray();
      const ak::NumpyArray* np = dynamic_cast<const ak::NumpyArray*>(arr.get());
      out.push_back('[');
      awsim::json_str(out, onames[i]);
      out.push_back(',');
      awsim::json_str(out, ak::util::dtype_to_name(np->dtype()));
      out.push_back(',');
      out += std::to_string((long long)it->second->len());
      out.push_back(',');
      awsim::hex_bytes(out, np->data(), (size_t)(np->length() * np->itemsize()));
      out.push_back(']');
    }
    out += "],\"pos\":[";
    first = true;
    for (auto& pr : fm.inputs) {
      long long pos = -1;
      try {
        pos = (long long)m.input_position_at(pr.first);
      }
      catch (std::invalid_argument&) {
        pos = -1;    // machine not begun, or the program does not declare this input
      }
      if (!first) out.push_back(',');
      first = false;
      out += std::to_string(pos);
    }
    out += "],\"inputs_intact\":";
    bool intact = true;
    for (size_t i = 0;  i < fm.inputs.size();  i++) {
      if (fm.pristine[i].size() != (size_t)(fm.inputs[i].second.second + fm.offsets[i])  ||
          (fm.pristine[i].size() != 0  &&
           std::memcmp(fm.pristine[i].data(), fm.inputs[i].second.first.get(), fm.pristine[i].size()) != 0)) {
        intact = false;
      }
    }
    out += intact ? "true" : "false";
    out += ",\"depth\":";
    out += std::to_string((long long)m.current_recursion_depth());
    out += ",\"bcpos\":";
    out += std::to_string((long long)m.current_bytecode_position());
    out += ",\"ninstr\":";
    out += std::to_string((long long)m.count_instructions());
    out.push_back('}');
  }
}

extern "C" {
  long aws_fm_new(int width, const char* src, long srclen, long stackmax, long recmax, long outinit, double outresize) {
    AWS_TRY
    std::shared_ptr<FM> fm = std::make_shared<FM>();
    fm->width = width;
    std::string source(src, (size_t)srclen);
    if (width == 32) {
      fm->m32 = std::make_shared<ak::ForthMachine32>(source, stackmax, recmax, outinit, outresize);
    }
    else {
      fm->m64 = std::make_shared<ak::ForthMachine64>(source, stackmax, recmax, outinit, outresize);
    }
    return awsim::put(awsim::K_FM, fm);
    AWS_CATCH(0)
  }

  int aws_fm_input(long h, const char* name, const void* bytes, long n) {
    AWS_TRY
    auto fm = awsim::get<FM>(h, awsim::K_FM);
    // a third of the inputs are views that start 1..12 bytes into their buffer (decided by the data, so that a case
    // always gets the same view)
    long mix = n * 7 + (long)std::strlen(name) + (n > 0 ? ((const uint8_t*)bytes)[0] : 0);
    long off = (mix % 3 == 0) ? 1 + (mix % 12) : 0;
    // an input that the machine does not declare as "must be writable" is handed over in read-only memory (what the
    // Python layer does with a read-only NumPy array or a bytes object: obj.request(input_must_be_writable(name)))
    bool writable = true;
    try {
      writable = (fm->width == 32 ? fm->m32->input_must_be_writable(name) : fm->m64->input_must_be_writable(name));
    }
    catch (std::exception&) { }
    std::shared_ptr<uint8_t> buf;
    if (!writable  &&  off + n > 0) {
      size_t bytes_mapped = (((size_t)(off + n) + 4095) / 4096) * 4096;
      void* m = mmap(nullptr, bytes_mapped, PROT_READ | PROT_WRITE, MAP_PRIVATE | MAP_ANONYMOUS, -1, 0);
      if (m == MAP_FAILED) throw std::runtime_error("mmap failed");
      buf = std::shared_ptr<uint8_t>((uint8_t*)m, [bytes_mapped](uint8_t* p) { munmap(p, bytes_mapped); });
    }
    else {
      buf = std::shared_ptr<uint8_t>(new uint8_t[(size_t)(off + n)], std::default_delete<uint8_t[]>());
    }
    for (long i = 0;  i < off;  i++) buf.get()[i] = (uint8_t)(0xE0 + i);
    if (n > 0) std::memcpy(buf.get() + off, bytes, (size_t)n);
    if (!writable  &&  off + n > 0) {
      mprotect(buf.get(), (((size_t)(off + n) + 4095) / 4096) * 4096, PROT_READ);
    }
    std::vector<uint8_t> copy(buf.get(), buf.get() + off + n);
    for (size_t i = 0;  i < fm->inputs.size();  i++) {
      if (fm->inputs[i].first == name) {
        fm->inputs[i].second = std::make_pair(buf, n);
        fm->pristine[i] = copy;
        fm->offsets[i] = off;
        return (!writable  &&  off + n > 0) ? 2 : 1;
      }
    }
    fm->inputs.push_back(std::make_pair(std::string(name), std::make_pair(buf, n)));
    fm->pristine.push_back(copy);
    fm->offsets.push_back(off);
    return (!writable  &&  off + n > 0) ? 2 : 1;      // 2: the bytes lie in read-only pages
    AWS_CATCH(0)
  }

  // returns the ForthError code (>= 0), or -1 when a C++ exception was raised
  int aws_fm_do(long h, int what, long count, long* done) {
    AWS_TRY
    auto fm = awsim::get<FM>(h, awsim::K_FM);
    if (fm->width == 32) return do_what(*fm->m32, *fm, what, count, done);
    return do_what(*fm->m64, *fm, what, count, done);
    AWS_CATCH(-1)
  }

  int aws_fm_call(long h, const char* word) {
    AWS_TRY
    auto fm = awsim::get<FM>(h, awsim::K_FM);
    if (fm->width == 32) return (int)fm->m32->call(std::string(word));
    return (int)fm->m64->call(std::string(word));
    AWS_CATCH(-1)
  }

  // bit0 ready, bit1 done
  int aws_fm_flags(long h) {
    AWS_TRY
    auto fm = awsim::get<FM>(h, awsim::K_FM);
    if (fm->width == 32) return (fm->m32->is_ready() ? 1 : 0) | (fm->m32->is_done() ? 2 : 0);
    return (fm->m64->is_ready() ? 1 : 0) | (fm->m64->is_done() ? 2 : 0);
    AWS_CATCH(-1)
  }

  // number of frames on the machine's return stack (a public accessor: how a caller tells "the word I called has
  // finished" from "the word I called has paused")
  long aws_fm_depth(long h) {
    AWS_TRY
    auto fm = awsim::get<FM>(h, awsim::K_FM);
    return (long)(fm->width == 32 ? fm->m32->current_recursion_depth() : fm->m64->current_recursion_depth());
    AWS_CATCH(-1)
  }

  long aws_fm_state(long h, char* out, long cap) {
    AWS_TRY
    auto fm = awsim::get<FM>(h, awsim::K_FM);
    std::string s;
    if (fm->width == 32) state_json(*fm->m32, *fm, s);
    else state_json(*fm->m64, *fm, s);
    return awsim::copy_out(s, out, cap);
    AWS_CATCH(-1)
  }

  long aws_fm_decompiled(long h, char* out, long cap) {
    AWS_TRY
    auto fm = awsim::get<FM>(h, awsim::K_FM);
    std::string s = fm->width == 32 ? fm->m32->decompiled() : fm->m64->decompiled();
    return awsim::copy_out(s, out, cap);
    AWS_CATCH(-1)
  }

  // what: 0 current_instruction, 1 dictionary (newline separated), 2 bytecodes tostring
  long aws_fm_text(long h, int what, char* out, long cap) {
    AWS_TRY
    auto fm = awsim::get<FM>(h, awsim::K_FM);
    std::string s;
    if (what == 0) {
      s = fm->width == 32 ? fm->m32->current_instruction() : fm->m64->current_instruction();
    }
    else if (what == 1) {
      auto d = fm->width == 32 ? fm->m32->dictionary() : fm->m64->dictionary();
      for (auto& w : d) { s += w; s.push_back('\n'); }
    }
    else {
      ak::ContentPtr bc = fm->width == 32 ? fm->m32->bytecodes() : fm->m64->bytecodes();
      s = bc->tojson(false, 1);
    }
    return awsim::copy_out(s, out, cap);
    AWS_CATCH(-1)
  }
}
