#include "awsim_core.h"

#include <malloc.h>

namespace awsim {
  static std::vector<Obj> table_(1);   // slot 0 unused
  static std::string err_cls_;
  static std::string err_msg_;

  long alloc_pause_depth = 0;

  long put(int kind, const std::shared_ptr<void>& p) {
    AllocPause pause;
    Obj o;
    o.kind = kind;
    o.p = p;
    table_.push_back(o);
    return (long)table_.size() - 1;
  }

  Obj& obj(long h) {
    if (h <= 0  ||  (size_t)h >= table_.size()  ||  table_[(size_t)h].kind == K_FREE) {
      throw HarnessError("awsim: bad handle " + std::to_string(h));
    }
    return table_[(size_t)h];
  }

  void drop(long h) {
    Obj& o = obj(h);
    o.kind = K_FREE;
    o.p.reset();
  }

  void reset_all() {
    // release in reverse creation order, deterministic
    for (size_t i = table_.size();  i-- > 1; ) {
      table_[i].kind = K_FREE;
      table_[i].p.reset();
    }
    table_.resize(1);
  }

  long live_count() {
    long n = 0;
    for (size_t i = 1;  i < table_.size();  i++) {
      if (table_[i].kind != K_FREE) n++;
    }
    return n;
  }

  void set_error(const char* cls, const std::string& msg) {
    err_cls_ = cls;
    err_msg_ = msg;
  }
  // (the callers build `msg` from e.what() inside a catch handler: the handlers call alloc_suspend() first, see the
  // AWS_CATCH macro - a simulated allocation failure belongs to the library call, not to the harness reporting it)

  void clear_error() {
    err_cls_.clear();
    err_msg_.clear();
  }

  const std::string& err_cls() { return err_cls_; }
  const std::string& err_msg() { return err_msg_; }

  void json_str(std::string& out, const std::string& s) {
    static const char* hex = "0123456789abcdef";
    out.push_back('"');
    for (unsigned char c : s) {
      if (c == '"'  ||  c == '\\') { out.push_back('\\'); out.push_back((char)c); }
      else if (c < 0x20  ||  c >= 0x7f) {
        // bytes are passed through as \u00XX: the Python side treats strings as latin-1 byte strings
        out += "\\u00"; out.push_back(hex[c >> 4]); out.push_back(hex[c & 15]);
      }
      else out.push_back((char)c);
    }
    out.push_back('"');
  }

  void hex_bytes(std::string& out, const void* p, size_t n) {
    static const char* hex = "0123456789abcdef";
    const unsigned char* b = reinterpret_cast<const unsigned char*>(p);
    out.push_back('"');
    for (size_t i = 0;  i < n;  i++) { out.push_back(hex[b[i] >> 4]); out.push_back(hex[b[i] & 15]); }
    out.push_back('"');
  }

  long copy_out(const std::string& s, char* out, long cap) {
    if (out != nullptr  &&  cap > 0) {
      size_t n = s.size() < (size_t)(cap - 1) ? s.size() : (size_t)(cap - 1);
      std::memcpy(out, s.data(), n);
      out[n] = 0;
    }
    return (long)s.size();
  }
}

namespace awsim {
  const std::string& err_cls();
  const std::string& err_msg();
  void bufreg_clear();
}

extern "C" {
  int aws_abi() { return 3; }

  void aws_reset() { awsim::reset_all(); awsim::bufreg_clear(); }

  long aws_live() { return awsim::live_count(); }

  int aws_drop(long h) {
    AWS_TRY
    awsim::drop(h);
    return 1;
    AWS_CATCH(0)
  }

  // returns 1 when an error is pending
  int aws_last_error(char* cls, int ccap, char* msg, int mcap) {
    if (awsim::err_cls().empty()) return 0;
    awsim::copy_out(awsim::err_cls(), cls, ccap);
    awsim::copy_out(awsim::err_msg(), msg, mcap);
    return 1;
  }

  // allocator seam: glibc fills fresh blocks with ~b and freed blocks with b
  int aws_perturb(int b) { return mallopt(M_PERTURB, b); }
}

// ------------------------------------------------------------------------------------------------ allocation seam
// Every C++ allocation of the node (awkward_malloc is `new uint8_t[n]`, and so are make_shared, std::vector, ...)
// goes through these replacements. Armed with a countdown k, the k-th allocation from now throws std::bad_alloc -
// once; then the seam disarms itself. (On the sanitizer node the sanitizer's own operator new is found first and the
// fault never fires: aws_alloc_supported() says so.)
#include <cstdlib>
#include <new>

namespace {
  long alloc_countdown_ = -1;     // < 0: disarmed
  long alloc_fired_ = 0;
  long alloc_seen_ = 0;
  bool alloc_replaced_ = false;

  inline void* sim_alloc(std::size_t n) {
    alloc_replaced_ = true;
    if (alloc_countdown_ >= 0  &&  awsim::alloc_pause_depth == 0) {
      alloc_seen_++;
      if (alloc_countdown_ == 0) {
        alloc_countdown_ = -1;
        alloc_fired_++;
        throw std::bad_alloc();
      }
      alloc_countdown_--;
    }
    void* p = std::malloc(n ? n : 1);
    if (p == nullptr) throw std::bad_alloc();
    return p;
  }
}

void* operator new(std::size_t n) { return sim_alloc(n); }
void* operator new[](std::size_t n) { return sim_alloc(n); }
void operator delete(void* p) noexcept { std::free(p); }
void operator delete[](void* p) noexcept { std::free(p); }
void operator delete(void* p, std::size_t) noexcept { std::free(p); }
void operator delete[](void* p, std::size_t) noexcept { std::free(p); }

namespace awsim {
  void alloc_suspend() { alloc_countdown_ = -1; }
}

extern "C" {
  // 1 when the node's allocations really go through the seam (decided by one probe allocation)
  int aws_alloc_supported() {
    alloc_replaced_ = false;
    delete[] new char[8];
    return alloc_replaced_ ? 1 : 0;
  }
  void aws_alloc_arm(long countdown) { alloc_countdown_ = countdown; alloc_seen_ = 0; }
  // disarms; returns 1 when the failure was delivered since the last arm, and the number of allocations seen
  int aws_alloc_disarm(long* seen) {
    int fired = alloc_fired_ > 0 ? 1 : 0;
    if (seen != nullptr) *seen = alloc_seen_;
    alloc_countdown_ = -1;
    alloc_fired_ = 0;
    return fired;
  }
}

