// ArrayBuilder wrapper and generic observation of Content handles (DESIGN.md section 6).
#include "awsim_core.h"
#include "awsim_walker.h"

#include <complex>
#include <set>

#include "awkward/Content.h"
#include "awkward/array/NumpyArray.h"
#include "awkward/type/Type.h"
#include "awkward/builder/ArrayBuilder.h"
#include "awkward/builder/ArrayBuilderOptions.h"

namespace ak = awkward;

namespace {
  // The *_fast entry points compare C-string addresses by design; names live as long as the process so that
  // address equality coincides with string equality, which is the contract those entry points assume.
  const char* intern(const char* s, long n) {
    awsim::AllocPause pause;
    static std::set<std::string>* pool = new std::set<std::string>();
    return pool->insert(std::string(s, (size_t)n)).first->c_str();
  }

  enum Cmd {
    C_NULL = 0, C_BOOL, C_INT, C_REAL, C_COMPLEX, C_DATETIME, C_TIMEDELTA, C_STRING, C_BYTES,
    C_BEGINLIST, C_ENDLIST, C_BEGINTUPLE, C_INDEX, C_ENDTUPLE,
    C_BEGINRECORD, C_BEGINRECORD_FAST, C_BEGINRECORD_CHECK, C_FIELD_FAST, C_FIELD_CHECK, C_ENDRECORD,
    C_APPEND, C_EXTEND, C_CLEAR, C_APPEND_NOWRAP
  };

  void via_c(uint8_t rc) {
    if (rc != 0) throw std::invalid_argument("extern \"C\" awkward_ArrayBuilder_* entry point reported an error");
  }
}

extern "C" {
  long aws_b_new(long initial, double resize) {
    AWS_TRY
    auto b = std::make_shared<ak::ArrayBuilder>(ak::ArrayBuilderOptions((int64_t)initial, resize));
    return awsim::put(awsim::K_BUILDER, b);
    AWS_CATCH(0)
  }

  // via = 0: C++ methods; via = 1: the extern "C" awkward_ArrayBuilder_* functions where one exists
  int aws_b_cmd(long h, int cmd, int via, long i, double d, double d2, const char* s, long slen, long arr) {
    AWS_TRY
    auto b = awsim::get<ak::ArrayBuilder>(h, awsim::K_BUILDER);
    void* raw = reinterpret_cast<void*>(b.get());
    switch (cmd) {
      case C_NULL: if (via) via_c(awkward_ArrayBuilder_null(raw)); else b->null(); break;
      case C_BOOL: if (via) via_c(awkward_ArrayBuilder_boolean(raw, i != 0)); else b->boolean(i != 0); break;
      case C_INT: if (via) via_c(awkward_ArrayBuilder_integer(raw, (int64_t)i)); else b->integer((int64_t)i); break;
      case C_REAL: if (via) via_c(awkward_ArrayBuilder_real(raw, d)); else b->real(d); break;
      case C_COMPLEX: b->complex(std::complex<double>(d, d2)); break;
      case C_DATETIME: b->datetime((int64_t)i, std::string(s, (size_t)slen)); break;
      case C_TIMEDELTA: b->timedelta((int64_t)i, std::string(s, (size_t)slen)); break;
      case C_STRING:
        if (via) via_c(awkward_ArrayBuilder_string_length(raw, s, (int64_t)slen));
        else b->string(s, (int64_t)slen);
        break;
      case C_BYTES:
        if (via) via_c(awkward_ArrayBuilder_bytestring_length(raw, s, (int64_t)slen));
        else b->bytestring(s, (int64_t)slen);
        break;
      case C_BEGINLIST: if (via) via_c(awkward_ArrayBuilder_beginlist(raw)); else b->beginlist(); break;
      case C_ENDLIST: if (via) via_c(awkward_ArrayBuilder_endlist(raw)); else b->endlist(); break;
      case C_BEGINTUPLE: if (via) via_c(awkward_ArrayBuilder_begintuple(raw, (int64_t)i)); else b->begintuple((int64_t)i); break;
      case C_INDEX: if (via) via_c(awkward_ArrayBuilder_index(raw, (int64_t)i)); else b->index((int64_t)i); break;
      case C_ENDTUPLE: if (via) via_c(awkward_ArrayBuilder_endtuple(raw)); else b->endtuple(); break;
      case C_BEGINRECORD: if (via) via_c(awkward_ArrayBuilder_beginrecord(raw)); else b->beginrecord(); break;
      case C_BEGINRECORD_FAST: {
        const char* name = intern(s, slen);
        if (via) via_c(awkward_ArrayBuilder_beginrecord_fast(raw, name)); else b->beginrecord_fast(name);
        break;
      }
      case C_BEGINRECORD_CHECK: {
        std::string name(s, (size_t)slen);
        if (via) via_c(awkward_ArrayBuilder_beginrecord_check(raw, name.c_str())); else b->beginrecord_check(name);
        break;
      }
      case C_FIELD_FAST: {
        const char* key = intern(s, slen);
        if (via) via_c(awkward_ArrayBuilder_field_fast(raw, key)); else b->field_fast(key);
        break;
      }
      case C_FIELD_CHECK: {
        std::string key(s, (size_t)slen);
        if (via) via_c(awkward_ArrayBuilder_field_check(raw, key.c_str())); else b->field_check(key);
        break;
      }
      case C_ENDRECORD: if (via) via_c(awkward_ArrayBuilder_endrecord(raw)); else b->endrecord(); break;
      case C_APPEND: {
        auto a = awsim::get<ak::Content>(arr, awsim::K_CONTENT);
        b->append(a, (int64_t)i);
        break;
      }
      case C_APPEND_NOWRAP: {
        auto a = awsim::get<ak::Content>(arr, awsim::K_CONTENT);
        if (via) via_c(awkward_ArrayBuilder_append_nowrap(raw, reinterpret_cast<const void*>(&a), (int64_t)i));
        else b->append_nowrap(a, (int64_t)i);
        break;
      }
      case C_EXTEND: {
        auto a = awsim::get<ak::Content>(arr, awsim::K_CONTENT);
        b->extend(a);
        break;
      }
      case C_CLEAR: if (via) via_c(awkward_ArrayBuilder_clear(raw)); else b->clear(); break;
      default: throw awsim::HarnessError("aws_b_cmd: unknown command");
    }
    return 1;
    AWS_CATCH(0)
  }

  long aws_b_snapshot(long h) {
    AWS_TRY
    auto b = awsim::get<ak::ArrayBuilder>(h, awsim::K_BUILDER);
    ak::ContentPtr c = b->snapshot();
    return awsim::put(awsim::K_CONTENT, c);
    AWS_CATCH(0)
  }

  // returns 1 on success and stores the length (which the builder reports as -1 in some states)
  int aws_b_length(long h, int via, long* result) {
    AWS_TRY
    auto b = awsim::get<ak::ArrayBuilder>(h, awsim::K_BUILDER);
    if (via) {
      int64_t out = -1;
      via_c(awkward_ArrayBuilder_length(reinterpret_cast<void*>(b.get()), &out));
      *result = (long)out;
      return 1;
    }
    *result = (long)b->length();
    return 1;
    AWS_CATCH(0)
  }

  // what: 0 type string, 1 tostring
  long aws_b_text(long h, int what, char* out, long cap) {
    AWS_TRY
    auto b = awsim::get<ak::ArrayBuilder>(h, awsim::K_BUILDER);
    std::string s;
    if (what == 0) s = b->type(ak::util::TypeStrs())->tostring();
    else s = b->tostring();
    return awsim::copy_out(s, out, cap);
    AWS_CATCH(-1)
  }

  // ------------------------------------------------------------------ generic observation of a Content handle
  long aws_dump(long h, char* out, long cap) {
    AWS_TRY
    auto c = awsim::get<ak::Content>(h, awsim::K_CONTENT);
    std::string s;
    awsim::walk(c.get(), s);
    return awsim::copy_out(s, out, cap);
    AWS_CATCH(-1)
  }

  // what: 0 form json (verbose), 1 type, 2 tostring, 3 validityerror, 4 classname, 5 tojson(compact), 6 form (non-verbose)
  long aws_text(long h, int what, char* out, long cap) {
    AWS_TRY
    auto c = awsim::get<ak::Content>(h, awsim::K_CONTENT);
    std::string s;
    switch (what) {
      case 0: s = c->form(true)->tojson(false, true); break;
      case 1: s = c->type(ak::util::TypeStrs())->tostring(); break;
      case 2: s = c->tostring(); break;
      case 3: s = c->validityerror("layout"); break;
      case 4: s = c->classname(); break;
      case 5: s = c->tojson(false, -1, nullptr, nullptr, nullptr, nullptr); break;
      case 6: s = c->form(true)->tojson(false, false); break;
      default: throw awsim::HarnessError("aws_text: unknown selector");
    }
    return awsim::copy_out(s, out, cap);
    AWS_CATCH(-1)
  }

  // 1 when the handle is not an array (a Record, a 0-d NumpyArray, None): in Python these become scalars/records, never layouts
  int aws_isscalar(long h) {
    AWS_TRY
    auto c = awsim::get<ak::Content>(h, awsim::K_CONTENT);
    if (c->isscalar()) return 1;
    if (const ak::NumpyArray* np = dynamic_cast<const ak::NumpyArray*>(c.get())) {
      if (np->shape().empty()) return 1;
    }
    return 0;
    AWS_CATCH(-1)
  }

  long aws_length(long h) {
    AWS_TRY
    auto c = awsim::get<ak::Content>(h, awsim::K_CONTENT);
    return (long)c->length();
    AWS_CATCH(-1)
  }
}

// ------------------------------------------------------------------------------------------------ LayoutBuilder
// The Form-driven builder of property C14: the Form arrives as JSON, the commands are those of the C++ API.
#include "awkward/layoutbuilder/LayoutBuilder.h"

extern "C" {
  long aws_lb_new(const char* form_json, long initial, double resize) {
    AWS_TRY
    ak::FormPtr form = ak::Form::fromjson(std::string(form_json));
    auto b = std::make_shared<ak::LayoutBuilder>(form, ak::ArrayBuilderOptions((int64_t)initial, resize));
    return awsim::put(awsim::K_LAYOUTBUILDER, b);
    AWS_CATCH(0)
  }

  // cmd: 0 null, 1 boolean(i), 2 int64(i), 3 float64(d), 4 complex(d, d2), 5 string(s), 6 bytestring(s),
  //      7 begin_list, 8 end_list, 9 index(i), 10 tag(i)
  int aws_lb_cmd(long h, int cmd, long i, double d, double d2, const char* s, long slen) {
    AWS_TRY
    auto b = awsim::get<ak::LayoutBuilder>(h, awsim::K_LAYOUTBUILDER);
    switch (cmd) {
      case 0: b->null(); break;
      case 1: b->boolean(i != 0); break;
      case 2: b->int64((int64_t)i); break;
      case 3: b->float64(d); break;
      case 4: b->complex(std::complex<double>(d, d2)); break;
      case 5: b->string(std::string(s, (size_t)slen)); break;
      case 6: b->bytestring(std::string(s, (size_t)slen)); break;
      case 7: b->begin_list(); break;
      case 8: b->end_list(); break;
      case 9: b->index((int64_t)i); break;
      case 10: b->tag((int8_t)i); break;
      default: throw awsim::HarnessError("aws_lb_cmd: unknown command");
    }
    return 1;
    AWS_CATCH(0)
  }

  long aws_lb_snapshot(long h) {
    AWS_TRY
    auto b = awsim::get<ak::LayoutBuilder>(h, awsim::K_LAYOUTBUILDER);
    return awsim::put(awsim::K_CONTENT, b->snapshot());
    AWS_CATCH(0)
  }

  // what: 0 vm_source, 1 form json, 2 length
  long aws_lb_text(long h, int what, char* out, long cap) {
    AWS_TRY
    auto b = awsim::get<ak::LayoutBuilder>(h, awsim::K_LAYOUTBUILDER);
    std::string s;
    if (what == 0) s = b->vm_source();
    else if (what == 1) s = b->form()->tojson(false, false);
    else s = std::to_string(b->length());
    return awsim::copy_out(s, out, cap);
    AWS_CATCH(-1)
  }
}
