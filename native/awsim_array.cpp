// Array construction from driver-owned buffers, the operation library, slices (DESIGN.md 9.1, 9.2, Appendix A).
#include "awsim_core.h"
#include "awsim_walker.h"

#include <sstream>

#include "awkward/Content.h"
#include "awkward/Index.h"
#include "awkward/Slice.h"
#include "awkward/Reducer.h"
#include "awkward/type/Type.h"
#include "awkward/array/NumpyArray.h"
#include "awkward/array/EmptyArray.h"
#include "awkward/array/ListArray.h"
#include "awkward/array/ListOffsetArray.h"
#include "awkward/array/RegularArray.h"
#include "awkward/array/IndexedArray.h"
#include "awkward/array/ByteMaskedArray.h"
#include "awkward/array/BitMaskedArray.h"
#include "awkward/array/UnmaskedArray.h"
#include "awkward/array/UnionArray.h"
#include "awkward/array/RecordArray.h"
#include "awkward/array/VirtualArray.h"

namespace ak = awkward;

namespace awsim {
  struct Buf {
    std::shared_ptr<uint8_t> p;
    long n;
  };

  struct Idx {
    int form;     // 0 i8, 1 u8, 2 i32, 3 u32, 4 i64
    std::shared_ptr<void> index;   // IndexOf<T>
  };

  // registry of every root buffer created in this run (weak: it must not keep a dropped buffer alive)
  struct BufReg {
    std::weak_ptr<uint8_t> p;
    long n;
  };
  static std::vector<BufReg> bufreg_;

  void bufreg_clear() { bufreg_.clear(); }

  static ak::util::dtype dtype_from_code(int code) {
    switch (code) {
      case 0: return ak::util::dtype::boolean;
      case 1: return ak::util::dtype::int8;
      case 2: return ak::util::dtype::int16;
      case 3: return ak::util::dtype::int32;
      case 4: return ak::util::dtype::int64;
      case 5: return ak::util::dtype::uint8;
      case 6: return ak::util::dtype::uint16;
      case 7: return ak::util::dtype::uint32;
      case 8: return ak::util::dtype::uint64;
      case 9: return ak::util::dtype::float32;
      case 10: return ak::util::dtype::float64;
      case 11: return ak::util::dtype::complex64;
      case 12: return ak::util::dtype::complex128;
      case 13: return ak::util::dtype::datetime64;
      case 14: return ak::util::dtype::timedelta64;
    }
    throw HarnessError("unknown dtype code");
  }

  template <typename T>
  ak::IndexOf<T> index_as(const std::shared_ptr<Idx>& ix, int want) {
    if (ix->form != want) throw HarnessError("index handle has the wrong integer type");
    return *std::static_pointer_cast<ak::IndexOf<T>>(ix->index);
  }

  ak::ContentPtr content(long h) { return get<ak::Content>(h, K_CONTENT); }

  // ---- the layout helpers the Python layer calls on particular node classes (broadcasting, to_regular, from_regular,
  //      mask handling): dispatched by dynamic type; a class that has no such method gives an ordinary error
  struct NotApplicable: public std::invalid_argument {
    NotApplicable(): std::invalid_argument("awsim: this node class has no such method") { }
  };

  #define AWS_LISTLIKE(x, CALL) \
    if (auto* p = dynamic_cast<const ak::ListArray32*>(x.get())) return p->CALL; \
    if (auto* p = dynamic_cast<const ak::ListArrayU32*>(x.get())) return p->CALL; \
    if (auto* p = dynamic_cast<const ak::ListArray64*>(x.get())) return p->CALL; \
    if (auto* p = dynamic_cast<const ak::ListOffsetArray32*>(x.get())) return p->CALL; \
    if (auto* p = dynamic_cast<const ak::ListOffsetArrayU32*>(x.get())) return p->CALL; \
    if (auto* p = dynamic_cast<const ak::ListOffsetArray64*>(x.get())) return p->CALL; \
    if (auto* p = dynamic_cast<const ak::RegularArray*>(x.get())) return p->CALL;

  #define AWS_OPTIONLIKE(x, CALL) \
    if (auto* p = dynamic_cast<const ak::IndexedArray32*>(x.get())) return p->CALL; \
    if (auto* p = dynamic_cast<const ak::IndexedArrayU32*>(x.get())) return p->CALL; \
    if (auto* p = dynamic_cast<const ak::IndexedArray64*>(x.get())) return p->CALL; \
    if (auto* p = dynamic_cast<const ak::IndexedOptionArray32*>(x.get())) return p->CALL; \
    if (auto* p = dynamic_cast<const ak::IndexedOptionArray64*>(x.get())) return p->CALL; \
    if (auto* p = dynamic_cast<const ak::ByteMaskedArray*>(x.get())) return p->CALL; \
    if (auto* p = dynamic_cast<const ak::BitMaskedArray*>(x.get())) return p->CALL; \
    if (auto* p = dynamic_cast<const ak::UnmaskedArray*>(x.get())) return p->CALL;

  ak::ContentPtr helper_toregular(const ak::ContentPtr& x) {
    AWS_LISTLIKE(x, toRegularArray())
    if (auto* p = dynamic_cast<const ak::NumpyArray*>(x.get())) return p->toRegularArray();
    throw NotApplicable();
  }
  ak::ContentPtr helper_tolistoffset64(const ak::ContentPtr& x, bool start_at_zero) {
    AWS_LISTLIKE(x, toListOffsetArray64(start_at_zero))
    throw NotApplicable();
  }
  ak::Index64 helper_compact_offsets64(const ak::ContentPtr& x, bool start_at_zero) {
    AWS_LISTLIKE(x, compact_offsets64(start_at_zero))
    throw NotApplicable();
  }
  ak::ContentPtr helper_broadcast_tooffsets64(const ak::ContentPtr& x, const ak::Index64& offsets) {
    AWS_LISTLIKE(x, broadcast_tooffsets64(offsets))
    throw NotApplicable();
  }
  ak::ContentPtr helper_project(const ak::ContentPtr& x) {
    AWS_OPTIONLIKE(x, project())
    throw NotApplicable();
  }
  ak::Index8 helper_bytemask(const ak::ContentPtr& x) {
    AWS_OPTIONLIKE(x, bytemask())
    throw NotApplicable();
  }
  ak::ContentPtr helper_tootheroption(const ak::ContentPtr& x, bool indexed) {
    if (auto* p = dynamic_cast<const ak::BitMaskedArray*>(x.get())) {
      if (indexed) return p->toIndexedOptionArray64();
      return p->toByteMaskedArray();
    }
    if (auto* p = dynamic_cast<const ak::ByteMaskedArray*>(x.get())) return p->toIndexedOptionArray64();
    if (auto* p = dynamic_cast<const ak::UnmaskedArray*>(x.get())) {
      if (indexed) return p->toIndexedOptionArray64();
      return p->toByteMaskedArray();
    }
    throw NotApplicable();
  }
  ak::ContentPtr helper_misc(const ak::ContentPtr& x) {
    if (auto* p = dynamic_cast<const ak::NumpyArray*>(x.get())) return std::make_shared<ak::NumpyArray>(p->contiguous());
    if (auto* p = dynamic_cast<const ak::RecordArray*>(x.get())) return p->astuple();
    throw NotApplicable();
  }

  ak::Index64 index64_from_content(const ak::ContentPtr& c) {
    // a flat NumpyArray of int64 -> an owned Index64 copy
    const ak::NumpyArray* np = dynamic_cast<const ak::NumpyArray*>(c.get());
    if (np == nullptr  ||  np->dtype() != ak::util::dtype::int64  ||  np->shape().size() != 1) {
      throw HarnessError("index64_from_content: need a flat int64 NumpyArray");
    }
    int64_t n = np->length();
    ak::Index64 out(n);
    const uint8_t* base = reinterpret_cast<const uint8_t*>(np->data());
    for (int64_t i = 0;  i < n;  i++) {
      int64_t v;
      std::memcpy(&v, base + i * np->strides()[0], 8);
      out.setitem_at_nowrap(i, v);
    }
    return out;
  }

  std::vector<std::string> split_csv(const char* s) {
    std::vector<std::string> out;
    if (s == nullptr  ||  s[0] == 0) return out;
    std::string cur;
    for (const char* p = s;  *p;  p++) {
      if (*p == ',') { out.push_back(cur); cur.clear(); }
      else cur.push_back(*p);
    }
    out.push_back(cur);
    return out;
  }
}

using namespace awsim;

extern "C" {
  // ------------------------------------------------------------------------------------------- buffers
  long aws_buf(const void* bytes, long n) {
    AWS_TRY
    auto b = std::make_shared<Buf>();
    b->p = std::shared_ptr<uint8_t>(new uint8_t[(size_t)n], std::default_delete<uint8_t[]>());
    b->n = n;
    if (n > 0) std::memcpy(b->p.get(), bytes, (size_t)n);
    BufReg r;
    r.p = b->p;
    r.n = n;
    { awsim::AllocPause pause; bufreg_.push_back(r); }
    return put(K_BUF, b);
    AWS_CATCH(0)
  }

  // stored-index corruption fault: overwrite width bytes at byteoff with value (little endian)
  int aws_buf_poke(long h, long byteoff, int width, long value) {
    AWS_TRY
    auto b = get<Buf>(h, K_BUF);
    if (byteoff < 0  ||  byteoff + width > b->n) throw HarnessError("aws_buf_poke outside the buffer");
    for (int i = 0;  i < width;  i++) {
      b->p.get()[byteoff + i] = (uint8_t)((value >> (8 * i)) & 0xff);
    }
    return 1;
    AWS_CATCH(0)
  }

  // FNV-1a over the full extent of every root buffer that is still alive (inputs-untouched invariant)
  unsigned long aws_digest_bufs(long* alive) {
    unsigned long h = 1469598103934665603UL;
    long count = 0;
    for (size_t i = 0;  i < bufreg_.size();  i++) {
      std::shared_ptr<uint8_t> p = bufreg_[i].p.lock();
      if (!p) continue;
      count++;
      h ^= (unsigned long)i; h *= 1099511628211UL;
      h ^= (unsigned long)bufreg_[i].n; h *= 1099511628211UL;
      for (long j = 0;  j < bufreg_[i].n;  j++) { h ^= p.get()[j]; h *= 1099511628211UL; }
    }
    if (alive != nullptr) *alive = count;
    return h;
  }

  void aws_bufreg_clear() { bufreg_clear(); }

  long aws_index(long bufh, int form, long offset, long length) {
    AWS_TRY
    auto b = get<Buf>(bufh, K_BUF);
    auto ix = std::make_shared<Idx>();
    ix->form = form;
    switch (form) {
      case 0: ix->index = std::make_shared<ak::Index8>(std::shared_ptr<int8_t>(b->p, reinterpret_cast<int8_t*>(b->p.get())), offset, length, ak::kernel::lib::cpu); break;
      case 1: ix->index = std::make_shared<ak::IndexU8>(std::shared_ptr<uint8_t>(b->p, reinterpret_cast<uint8_t*>(b->p.get())), offset, length, ak::kernel::lib::cpu); break;
      case 2: ix->index = std::make_shared<ak::Index32>(std::shared_ptr<int32_t>(b->p, reinterpret_cast<int32_t*>(b->p.get())), offset, length, ak::kernel::lib::cpu); break;
      case 3: ix->index = std::make_shared<ak::IndexU32>(std::shared_ptr<uint32_t>(b->p, reinterpret_cast<uint32_t*>(b->p.get())), offset, length, ak::kernel::lib::cpu); break;
      case 4: ix->index = std::make_shared<ak::Index64>(std::shared_ptr<int64_t>(b->p, reinterpret_cast<int64_t*>(b->p.get())), offset, length, ak::kernel::lib::cpu); break;
      default: throw HarnessError("aws_index: unknown form");
    }
    return put(K_INDEX, ix);
    AWS_CATCH(0)
  }

  // ------------------------------------------------------------------------------------------- node constructors
  long aws_numpy(long bufh, int dtype, int ndim, const long* shape, const long* strides, long byteoffset, const char* unit) {
    AWS_TRY
    auto b = get<Buf>(bufh, K_BUF);
    ak::util::dtype dt = dtype_from_code(dtype);
    std::vector<ssize_t> sh, st;
    for (int i = 0;  i < ndim;  i++) { sh.push_back((ssize_t)shape[i]); st.push_back((ssize_t)strides[i]); }
    std::string format = ak::util::dtype_to_format(dt);
    if (dt == ak::util::dtype::datetime64) format = std::string("M8[") + unit + "]";
    if (dt == ak::util::dtype::timedelta64) format = std::string("m8[") + unit + "]";
    if (std::string(unit) == "alt") {
      // the other spelling of the same 8-byte integer type ('l' and 'q', 'L' and 'Q': what np.int64 and np.longlong
      // buffers announce on this platform)
      if (dt == ak::util::dtype::int64) format = (format == "l" ? "q" : "l");
      if (dt == ak::util::dtype::uint64) format = (format == "L" ? "Q" : "L");
    }
    ak::ContentPtr out = std::make_shared<ak::NumpyArray>(
        ak::Identities::none(), ak::util::Parameters(), std::shared_ptr<void>(b->p, b->p.get()), sh, st,
        (ssize_t)byteoffset, (ssize_t)ak::util::dtype_to_itemsize(dt), format, dt, ak::kernel::lib::cpu);
    return put(K_CONTENT, out);
    AWS_CATCH(0)
  }

  long aws_empty() {
    AWS_TRY
    ak::ContentPtr out = std::make_shared<ak::EmptyArray>(ak::Identities::none(), ak::util::Parameters());
    return put(K_CONTENT, out);
    AWS_CATCH(0)
  }

  long aws_regular(long c, long size, long zeros_length) {
    AWS_TRY
    ak::ContentPtr out = std::make_shared<ak::RegularArray>(ak::Identities::none(), ak::util::Parameters(), content(c),
                                                            (int64_t)size, (int64_t)zeros_length);
    return put(K_CONTENT, out);
    AWS_CATCH(0)
  }

  long aws_listoffset(long offsets, long c) {
    AWS_TRY
    auto ix = get<Idx>(offsets, K_INDEX);
    ak::ContentPtr out;
    switch (ix->form) {
      case 2: out = std::make_shared<ak::ListOffsetArray32>(ak::Identities::none(), ak::util::Parameters(), index_as<int32_t>(ix, 2), content(c)); break;
      case 3: out = std::make_shared<ak::ListOffsetArrayU32>(ak::Identities::none(), ak::util::Parameters(), index_as<uint32_t>(ix, 3), content(c)); break;
      case 4: out = std::make_shared<ak::ListOffsetArray64>(ak::Identities::none(), ak::util::Parameters(), index_as<int64_t>(ix, 4), content(c)); break;
      default: throw HarnessError("aws_listoffset: bad index type");
    }
    return put(K_CONTENT, out);
    AWS_CATCH(0)
  }

  long aws_list(long starts, long stops, long c) {
    AWS_TRY
    auto s1 = get<Idx>(starts, K_INDEX);
    auto s2 = get<Idx>(stops, K_INDEX);
    ak::ContentPtr out;
    switch (s1->form) {
      case 2: out = std::make_shared<ak::ListArray32>(ak::Identities::none(), ak::util::Parameters(), index_as<int32_t>(s1, 2), index_as<int32_t>(s2, 2), content(c)); break;
      case 3: out = std::make_shared<ak::ListArrayU32>(ak::Identities::none(), ak::util::Parameters(), index_as<uint32_t>(s1, 3), index_as<uint32_t>(s2, 3), content(c)); break;
      case 4: out = std::make_shared<ak::ListArray64>(ak::Identities::none(), ak::util::Parameters(), index_as<int64_t>(s1, 4), index_as<int64_t>(s2, 4), content(c)); break;
      default: throw HarnessError("aws_list: bad index type");
    }
    return put(K_CONTENT, out);
    AWS_CATCH(0)
  }

  long aws_indexed(long index, long c, int isoption) {
    AWS_TRY
    auto ix = get<Idx>(index, K_INDEX);
    ak::ContentPtr out;
    if (!isoption) {
      switch (ix->form) {
        case 2: out = std::make_shared<ak::IndexedArray32>(ak::Identities::none(), ak::util::Parameters(), index_as<int32_t>(ix, 2), content(c)); break;
        case 3: out = std::make_shared<ak::IndexedArrayU32>(ak::Identities::none(), ak::util::Parameters(), index_as<uint32_t>(ix, 3), content(c)); break;
        case 4: out = std::make_shared<ak::IndexedArray64>(ak::Identities::none(), ak::util::Parameters(), index_as<int64_t>(ix, 4), content(c)); break;
        default: throw HarnessError("aws_indexed: bad index type");
      }
    }
    else {
      switch (ix->form) {
        case 2: out = std::make_shared<ak::IndexedOptionArray32>(ak::Identities::none(), ak::util::Parameters(), index_as<int32_t>(ix, 2), content(c)); break;
        case 4: out = std::make_shared<ak::IndexedOptionArray64>(ak::Identities::none(), ak::util::Parameters(), index_as<int64_t>(ix, 4), content(c)); break;
        default: throw HarnessError("aws_indexed: bad option index type");
      }
    }
    return put(K_CONTENT, out);
    AWS_CATCH(0)
  }

  long aws_unmasked(long c) {
    AWS_TRY
    ak::ContentPtr out = std::make_shared<ak::UnmaskedArray>(ak::Identities::none(), ak::util::Parameters(), content(c));
    return put(K_CONTENT, out);
    AWS_CATCH(0)
  }

  long aws_bytemasked(long mask, long c, int valid_when) {
    AWS_TRY
    auto ix = get<Idx>(mask, K_INDEX);
    ak::ContentPtr out = std::make_shared<ak::ByteMaskedArray>(ak::Identities::none(), ak::util::Parameters(),
                                                               index_as<int8_t>(ix, 0), content(c), valid_when != 0);
    return put(K_CONTENT, out);
    AWS_CATCH(0)
  }

  long aws_bitmasked(long mask, long c, int valid_when, long length, int lsb_order) {
    AWS_TRY
    auto ix = get<Idx>(mask, K_INDEX);
    ak::ContentPtr out = std::make_shared<ak::BitMaskedArray>(ak::Identities::none(), ak::util::Parameters(),
                                                              index_as<uint8_t>(ix, 1), content(c), valid_when != 0,
                                                              (int64_t)length, lsb_order != 0);
    return put(K_CONTENT, out);
    AWS_CATCH(0)
  }

  long aws_union(long tags, long index, const long* contents, int n) {
    AWS_TRY
    auto t = get<Idx>(tags, K_INDEX);
    auto ix = get<Idx>(index, K_INDEX);
    ak::ContentPtrVec cs;
    for (int i = 0;  i < n;  i++) cs.push_back(content(contents[i]));
    ak::ContentPtr out;
    switch (ix->form) {
      case 2: out = std::make_shared<ak::UnionArray8_32>(ak::Identities::none(), ak::util::Parameters(), index_as<int8_t>(t, 0), index_as<int32_t>(ix, 2), cs); break;
      case 3: out = std::make_shared<ak::UnionArray8_U32>(ak::Identities::none(), ak::util::Parameters(), index_as<int8_t>(t, 0), index_as<uint32_t>(ix, 3), cs); break;
      case 4: out = std::make_shared<ak::UnionArray8_64>(ak::Identities::none(), ak::util::Parameters(), index_as<int8_t>(t, 0), index_as<int64_t>(ix, 4), cs); break;
      default: throw HarnessError("aws_union: bad index type");
    }
    return put(K_CONTENT, out);
    AWS_CATCH(0)
  }

  // names: comma separated keys, or NULL for a tuple
  long aws_record(const long* contents, int n, const char* names, long length) {
    AWS_TRY
    ak::ContentPtrVec cs;
    for (int i = 0;  i < n;  i++) cs.push_back(content(contents[i]));
    ak::util::RecordLookupPtr lookup(nullptr);
    if (names != nullptr) {
      lookup = std::make_shared<ak::util::RecordLookup>();
      for (auto& k : split_csv(names)) lookup->push_back(k);
      if ((int)lookup->size() != n) throw HarnessError("aws_record: names do not match contents");
    }
    ak::ContentPtr out = std::make_shared<ak::RecordArray>(ak::Identities::none(), ak::util::Parameters(), cs, lookup,
                                                           (int64_t)length);
    return put(K_CONTENT, out);
    AWS_CATCH(0)
  }

  // in-place on a freshly constructed node (before anybody else has seen it)
  int aws_setparam(long h, const char* key, const char* json) {
    AWS_TRY
    content(h)->setparameter(key, json);
    return 1;
    AWS_CATCH(0)
  }

  // ------------------------------------------------------------------------------------------- slices
  long aws_slice_new() {
    AWS_TRY
    return put(K_SLICE, std::make_shared<ak::Slice>());
    AWS_CATCH(0)
  }

  // kind: 0 at(i) 1 range(start, stop, step; has_start, has_stop, has_step flags in iargs[3..5]) 2 ellipsis 3 newaxis
  //       4 array-like (content handle -> asslice()) 5 field(s) 6 fields(csv)
  int aws_slice_add(long sh, int kind, const long* iargs, int ni, const char* sarg, long arr) {
    AWS_TRY
    auto s = get<ak::Slice>(sh, K_SLICE);
    switch (kind) {
      case 0: s->append(ak::SliceAt((int64_t)iargs[0])); break;
      case 1: {
        int64_t start = iargs[3] ? (int64_t)iargs[0] : ak::Slice::none();
        int64_t stop = iargs[4] ? (int64_t)iargs[1] : ak::Slice::none();
        int64_t step = iargs[5] ? (int64_t)iargs[2] : ak::Slice::none();
        s->append(ak::SliceRange(start, stop, step));
        break;
      }
      case 2: s->append(ak::SliceEllipsis()); break;
      case 3: s->append(ak::SliceNewAxis()); break;
      case 4: s->append(content(arr)->asslice()); break;
      case 5: s->append(ak::SliceField(std::string(sarg))); break;
      case 6: s->append(ak::SliceFields(split_csv(sarg))); break;
      case 7: {
        // an integer index array with more than one dimension (what the Python layer builds from a NumPy array):
        // iargs = ndim, shape..., then the values in C order
        int nd = (int)iargs[0];
        if (nd < 1  ||  ni < 1 + nd) throw HarnessError("aws_slice_add: bad multi-dimensional index array");
        std::vector<int64_t> shape, strides((size_t)nd, 1);
        int64_t total = 1;
        for (int d = 0;  d < nd;  d++) { shape.push_back((int64_t)iargs[1 + d]); total *= (int64_t)iargs[1 + d]; }
        for (int d = nd - 2;  d >= 0;  d--) strides[(size_t)d] = strides[(size_t)d + 1] * shape[(size_t)d + 1];
        if (ni != 1 + nd + total) throw HarnessError("aws_slice_add: index array values do not match its shape");
        ak::Index64 index(total);
        for (int64_t i = 0;  i < total;  i++) index.data()[i] = (int64_t)iargs[1 + nd + i];
        s->append(ak::SliceArray64(index, shape, strides, false));
        break;
      }
      default: throw HarnessError("aws_slice_add: unknown kind");
    }
    return 1;
    AWS_CATCH(0)
  }

  long aws_getitem(long a, long sh) {
    AWS_TRY
    auto s = get<ak::Slice>(sh, K_SLICE);
    ak::Slice sealed(s->items());
    sealed.become_sealed();
    ak::ContentPtr out = content(a)->getitem(sealed);
    return put(K_CONTENT, out);
    AWS_CATCH(0)
  }

  // ------------------------------------------------------------------------------------------- operations
  long aws_op(int opcode, long a, long b, const long* iargs, int ni, const char* sarg) {
    AWS_TRY
    ak::ContentPtr x = content(a);
    ak::ContentPtr out;
    switch (opcode) {
      case 0: out = x->getitem_at((int64_t)iargs[0]); break;
      case 1: out = x->getitem_range((int64_t)iargs[0], (int64_t)iargs[1]); break;
      case 2: out = x->getitem_field(std::string(sarg)); break;
      case 3: out = x->getitem_fields(split_csv(sarg)); break;
      case 4: out = x->carry(index64_from_content(content(b)), iargs[0] != 0); break;
      case 5: out = x->num((int64_t)iargs[0], 0); break;
      case 6: out = x->offsets_and_flattened((int64_t)iargs[0], 0).second; break;
      case 7: {
        ak::Index64 off = x->offsets_and_flattened((int64_t)iargs[0], 0).first;
        out = std::make_shared<ak::NumpyArray>(off);
        break;
      }
      case 8: out = x->localindex((int64_t)iargs[0], 0); break;
      case 9: {
        int64_t axis = iargs[1];
        bool mask = iargs[2] != 0, keepdims = iargs[3] != 0;
        switch (iargs[0]) {
          case 0: out = x->reduce(ak::ReducerCount(), axis, mask, keepdims); break;
          case 1: out = x->reduce(ak::ReducerCountNonzero(), axis, mask, keepdims); break;
          case 2: out = x->reduce(ak::ReducerSum(), axis, mask, keepdims); break;
          case 3: out = x->reduce(ak::ReducerProd(), axis, mask, keepdims); break;
          case 4: out = x->reduce(ak::ReducerAny(), axis, mask, keepdims); break;
          case 5: out = x->reduce(ak::ReducerAll(), axis, mask, keepdims); break;
          case 6: out = x->reduce(ak::ReducerMin(), axis, mask, keepdims); break;
          case 7: out = x->reduce(ak::ReducerMax(), axis, mask, keepdims); break;
          case 8: out = x->reduce(ak::ReducerArgmin(), axis, mask, keepdims); break;
          case 9: out = x->reduce(ak::ReducerArgmax(), axis, mask, keepdims); break;
          default: throw HarnessError("unknown reducer");
        }
        break;
      }
      case 10: out = x->sort((int64_t)iargs[0], iargs[1] != 0, iargs[2] != 0); break;
      case 11: out = x->argsort((int64_t)iargs[0], iargs[1] != 0, iargs[2] != 0); break;
      case 12: out = x->combinations((int64_t)iargs[0], iargs[1] != 0, ak::util::RecordLookupPtr(nullptr),
                                     ak::util::Parameters(), (int64_t)iargs[2], 0); break;
      case 13: out = x->rpad((int64_t)iargs[0], (int64_t)iargs[1], 0); break;
      case 14: out = x->rpad_and_clip((int64_t)iargs[0], (int64_t)iargs[1], 0); break;
      case 15: out = x->fillna(content(b)); break;
      case 16: out = x->merge(content(b)); break;
      case 17: out = x->merge_as_union(content(b)); break;
      case 18: out = x->shallow_simplify(); break;
      case 19: out = x->deep_copy(iargs[0] != 0, iargs[1] != 0, iargs[2] != 0); break;
      case 20: out = x->numbers_to_type(std::string(sarg)); break;
      case 21: out = x->unique(); break;
      case 23: out = x->shallow_copy(); break;
      case 24: out = x->getitem_nothing(); break;
      case 28: out = x->getitem_range_nowrap((int64_t)iargs[0], (int64_t)iargs[1]); break;
      case 31: {
        // (the Python layer asks a VirtualArray for its array() before it calls one of these)
        while (auto* v = dynamic_cast<const ak::VirtualArray*>(x.get())) {
          x = v->array();
        }
        switch (iargs[0]) {
          case 0: out = helper_toregular(x); break;
          case 1: out = helper_tolistoffset64(x, iargs[1] != 0); break;
          case 2: {
            // broadcasting: the offsets of one list array imposed on another of the same length (the Python layer
            // has made the lengths equal before it gets here)
            if (b == 0) {
              // ... or the array's own list lengths, changed by the deltas in iargs[2..] (all zero: the broadcast that
              // fits; otherwise one that must be refused before anything is written)
              ak::Index64 own = helper_compact_offsets64(x, true);
              ak::Index64 target(own.length());
              int64_t at = 0;
              target.setitem_at_nowrap(0, 0);
              for (int64_t i = 0;  i + 1 < own.length();  i++) {
                int64_t count = own.getitem_at_nowrap(i + 1) - own.getitem_at_nowrap(i);
                if (ni > 2) count += (int64_t)iargs[2 + (i % (ni - 2))];
                if (count < 0) count = 0;
                at += count;
                target.setitem_at_nowrap(i + 1, at);
              }
              out = helper_broadcast_tooffsets64(x, target);
              break;
            }
            ak::ContentPtr y = content(b);
            while (auto* v = dynamic_cast<const ak::VirtualArray*>(y.get())) {
              y = v->array();
            }
            if (y->length() != x->length()) throw std::invalid_argument("awsim: broadcast_tooffsets64 needs arrays of equal length");
            out = helper_broadcast_tooffsets64(x, helper_compact_offsets64(y, true));
            break;
          }
          case 3: out = helper_project(x); break;
          case 4: out = std::make_shared<ak::NumpyArray>(helper_bytemask(x)); break;
          case 5: out = helper_tootheroption(x, iargs[1] != 0); break;
          case 6: out = helper_misc(x); break;
          case 7: out = std::make_shared<ak::NumpyArray>(helper_compact_offsets64(x, iargs[1] != 0)); break;
          case 8: {
            // ak.with_field: a new record array with one more (or one replaced) field
            auto* rec = dynamic_cast<const ak::RecordArray*>(x.get());
            if (rec == nullptr) throw NotApplicable();
            ak::ContentPtr y = content(b);
            if (y->length() != x->length()) throw std::invalid_argument("awsim: setitem_field needs arrays of equal length");
            out = rec->setitem_field(std::string(sarg), y);
            break;
          }
          default: throw HarnessError("unknown layout helper");
        }
        break;
      }
      case 30: {
        // a copy of the array that carries Identities (setidentities() is the one mutator of the Content API: it is
        // applied to a deep copy, so the operand itself stays untouched)
        out = x->deep_copy(true, true, true);
        const_cast<ak::Content*>(out.get())->setidentities();
        break;
      }
      case 29: {
        ak::ContentPtrVec others;
        others.push_back(content(b));
        for (int i = 0;  i < ni;  i++) others.push_back(content(iargs[i]));
        out = x->mergemany(others);
        break;
      }
      default: throw HarnessError("aws_op: unknown opcode");
    }
    return put(K_CONTENT, out);
    AWS_CATCH(0)
  }

  // metadata that must not materialise a virtual array whose form and length are declared.
  // what: 0 length 1 form(false) json 2 type 3 purelist_depth 4 minmax_depth 5 branch_depth 6 keys 7 numfields
  //       8 haskey(sarg) 9 is_unique
  long aws_meta(long a, int what, const char* sarg, char* out, long cap) {
    AWS_TRY
    ak::ContentPtr x = content(a);
    std::stringstream s;
    switch (what) {
      case 0: s << x->length(); break;
      case 1: s << x->form(false)->tojson(false, false); break;
      case 2: s << x->type(ak::util::TypeStrs())->tostring(); break;
      case 3: s << x->purelist_depth(); break;
      case 4: { auto p = x->minmax_depth(); s << p.first << "," << p.second; break; }
      case 5: { auto p = x->branch_depth(); s << (p.first ? 1 : 0) << "," << p.second; break; }
      case 6: { for (auto& k : x->keys()) s << k << ","; break; }
      case 7: s << x->numfields(); break;
      case 8: s << (x->haskey(std::string(sarg)) ? 1 : 0); break;
      case 9: s << (x->is_unique() ? 1 : 0); break;
      default: throw HarnessError("aws_meta: unknown selector");
    }
    return copy_out(s.str(), out, cap);
    AWS_CATCH(-1)
  }
}
