// JSON reader/writer over simulated streams (DESIGN.md section 8).  Real code: src/libawkward/io/json.cpp and every
// node's tojson_part; the tokenizer underneath is the framework's rapidjson stub.
#define _GNU_SOURCE 1
#include "awsim_core.h"

#include <cstdio>

#include "awkward/Content.h"
#include "awkward/io/json.h"
#include "awkward/builder/ArrayBuilderOptions.h"

namespace ak = awkward;

namespace {
  // ---- a FILE* whose bytes come from memory, delivered in simulator-chosen chunk sizes
  struct Source {
    const uint8_t* data;
    long n;
    long pos;
    const long* chunks;
    int nchunks;
    long calls;
  };

  ssize_t src_read(void* cookie, char* buf, size_t size) {
    Source* s = reinterpret_cast<Source*>(cookie);
    long want = (long)size;
    if (s->nchunks > 0) {
      long c = s->chunks[s->calls % s->nchunks];
      if (c < 1) c = 1;
      if (c < want) want = c;
    }
    s->calls++;
    long left = s->n - s->pos;
    if (want > left) want = left;
    if (want <= 0) return 0;      // end of stream
    std::memcpy(buf, s->data + s->pos, (size_t)want);
    s->pos += want;
    return (ssize_t)want;
  }

  int src_close(void* cookie) { return 0; }

  struct Sink {
    std::string data;
    long calls;
  };

  ssize_t sink_write(void* cookie, const char* buf, size_t size) {
    Sink* s = reinterpret_cast<Sink*>(cookie);
    s->data.append(buf, size);
    s->calls++;
    return (ssize_t)size;
  }

  const char* opt(const char* s) { return (s != nullptr  &&  s[0] == '\x01') ? nullptr : s; }
}

extern "C" {
  // via: 0 FromJsonString (text must not contain NUL; a copy with a terminating NUL is made),
  //      1 FromJsonFile over a cookie stream (stdio default buffering), 2 same, unbuffered stdio
  // nan/inf/minf: "\x01" means "not given"
  long aws_fromjson(int via, const void* text, long n, long buffersize, long initial, double resize,
                    const char* nan, const char* inf, const char* minf, const long* chunks, int nchunks) {
    AWS_TRY
    ak::ArrayBuilderOptions options((int64_t)initial, resize);
    ak::ContentPtr out;
    if (via == 0) {
      std::string copy(reinterpret_cast<const char*>(text), (size_t)n);
      out = ak::FromJsonString(copy.c_str(), options, opt(nan), opt(inf), opt(minf));
    }
    else {
      Source src;
      src.data = reinterpret_cast<const uint8_t*>(text);
      src.n = n;
      src.pos = 0;
      src.chunks = chunks;
      src.nchunks = nchunks;
      src.calls = 0;
      cookie_io_functions_t io;
      io.read = src_read;
      io.write = nullptr;
      io.seek = nullptr;
      io.close = src_close;
      FILE* fp = fopencookie(&src, "r", io);
      if (fp == nullptr) throw awsim::HarnessError("fopencookie failed");
      if (via == 2) setvbuf(fp, nullptr, _IONBF, 0);
      try {
        out = ak::FromJsonFile(fp, options, (int64_t)buffersize, opt(nan), opt(inf), opt(minf));
      }
      catch (...) {
        fclose(fp);
        throw;
      }
      fclose(fp);
    }
    return awsim::put(awsim::K_CONTENT, out);
    AWS_CATCH(0)
  }

  // via: 0 string, 1 pretty string, 2 file, 3 pretty file
  long aws_tojson(long h, int via, long buffersize, long maxdecimals, const char* nan, const char* inf,
                  const char* minf, const char* cre, const char* cim, char* out, long cap) {
    AWS_TRY
    auto c = awsim::get<ak::Content>(h, awsim::K_CONTENT);
    std::string s;
    if (via == 0  ||  via == 1) {
      s = c->tojson(via == 1, (int64_t)maxdecimals, opt(nan), opt(inf), opt(minf), opt(cre), opt(cim));
    }
    else {
      Sink sink;
      sink.calls = 0;
      cookie_io_functions_t io;
      io.read = nullptr;
      io.write = sink_write;
      io.seek = nullptr;
      io.close = nullptr;
      FILE* fp = fopencookie(&sink, "w", io);
      if (fp == nullptr) throw awsim::HarnessError("fopencookie failed");
      try {
        c->tojson(fp, via == 3, (int64_t)maxdecimals, (int64_t)buffersize, opt(nan), opt(inf), opt(minf), opt(cre), opt(cim));
      }
      catch (...) {
        fclose(fp);
        throw;
      }
      fclose(fp);
      s = sink.data;
    }
    return awsim::copy_out(s, out, cap);
    AWS_CATCH(-1)
  }
}
