#ifndef AWSIM_WALKER_H_
#define AWSIM_WALKER_H_

#include <string>

#include "awsim_core.h"

namespace awkward { class Content; }

namespace awsim {
  void walk(const awkward::Content* c, std::string& out);
}

#endif
