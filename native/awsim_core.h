// Framework-owned harness around the real libawkward code (see /verif/DESIGN.md 4.1).
// extern "C" surface driven from Python through ctypes.  No awkward code lives here.
#ifndef AWSIM_CORE_H_
#define AWSIM_CORE_H_

#include <cstdint>
#include <cstring>
#include <map>
#include <memory>
#include <stdexcept>
#include <string>
#include <vector>

namespace awsim {
  enum Kind {
    K_FREE = 0, K_CONTENT, K_BUF, K_INDEX, K_BUILDER, K_FM, K_CACHE, K_GEN, K_PART, K_SLICE,
    K_LAYOUTBUILDER, K_RECORD
  };

  struct Obj {
    int kind;
    std::shared_ptr<void> p;
  };

  struct HarnessError : public std::exception {
    std::string msg;
    explicit HarnessError(const std::string& m) : msg(m) { }
    const char* what() const noexcept override { return msg.c_str(); }
  };

  // raised when a layout cannot be read as a value (corrupted index, unsupported node): a well-defined failure
  // of the *observer*, reported to the driver as class "walk"
  struct WalkError : public std::exception {
    std::string msg;
    explicit WalkError(const std::string& m) : msg(m) { }
    const char* what() const noexcept override { return msg.c_str(); }
  };

  long put(int kind, const std::shared_ptr<void>& p);
  Obj& obj(long h);   // throws HarnessError on a bad handle (a harness bug, never awkward's)
  void drop(long h);
  void reset_all();
  long live_count();

  template <typename T>
  std::shared_ptr<T> get(long h, int kind) {
    Obj& o = obj(h);
    if (o.kind != kind) {
      throw HarnessError("awsim: handle " + std::to_string(h) + " has kind " + std::to_string(o.kind)
                             + ", wanted " + std::to_string(kind));
    }
    return std::static_pointer_cast<T>(o.p);
  }

  void set_error(const char* cls, const std::string& msg);   // also suspends the allocation seam (see awsim_core.cpp)
  void alloc_suspend();        // no further simulated allocation failure until the seam is armed again
  // Harness bookkeeping whose allocations depend on what the process did before (growth of the handle table, the
  // first interning of a name, the seam log) must not count towards "the k-th allocation of this call", or the same
  // case would fail at different points in different worker processes: such code runs under an AllocPause.
  extern long alloc_pause_depth;
  struct AllocPause {
    AllocPause() { alloc_pause_depth++; }
    ~AllocPause() { alloc_pause_depth--; }
  };
  void clear_error();

  // minimal JSON string escaping for the text dumps
  void json_str(std::string& out, const std::string& s);
  void hex_bytes(std::string& out, const void* p, size_t n);
  long copy_out(const std::string& s, char* out, long cap);   // returns needed length (without NUL)
}

#define AWS_TRY awsim::clear_error(); try {
#define AWS_CATCH(ret)                                                              \
  }                                                                                 \
  catch (awsim::HarnessError& e)   { awsim::alloc_suspend(); awsim::set_error("harness", e.what()); return ret; }          \
  catch (awsim::WalkError& e)      { awsim::alloc_suspend(); awsim::set_error("walk", e.what()); return ret; }             \
  catch (std::invalid_argument& e) { awsim::alloc_suspend(); awsim::set_error("invalid_argument", e.what()); return ret; } \
  catch (std::out_of_range& e)     { awsim::alloc_suspend(); awsim::set_error("out_of_range", e.what()); return ret; }     \
  catch (std::runtime_error& e)    { awsim::alloc_suspend(); awsim::set_error("runtime_error", e.what()); return ret; }    \
  catch (std::bad_alloc& e)        { awsim::alloc_suspend(); awsim::set_error("bad_alloc", e.what()); return ret; }        \
  catch (std::exception& e)        { awsim::alloc_suspend(); awsim::set_error("std", e.what()); return ret; }              \
  catch (...)                      { awsim::alloc_suspend(); awsim::set_error("nonstd", "non-std exception"); return ret; }

#endif
