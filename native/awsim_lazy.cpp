// VirtualArray / partitions behind a simulator-owned cache and generator (DESIGN.md section 7).
// Both seams already exist in the code as abstract classes: ArrayCache and ArrayGenerator.
#include "awsim_core.h"
#include "awsim_walker.h"

#include <sstream>

#include "awkward/Content.h"
#include "awkward/array/VirtualArray.h"
#include "awkward/virtual/ArrayCache.h"
#include "awkward/virtual/ArrayGenerator.h"
#include "awkward/partition/IrregularlyPartitionedArray.h"
#include "awkward/array/NumpyArray.h"
#include "awkward/array/EmptyArray.h"
#include "awkward/array/RegularArray.h"
#include "awkward/array/ListArray.h"
#include "awkward/array/ListOffsetArray.h"
#include "awkward/array/IndexedArray.h"
#include "awkward/array/ByteMaskedArray.h"
#include "awkward/array/BitMaskedArray.h"
#include "awkward/array/UnmaskedArray.h"
#include "awkward/array/UnionArray.h"
#include "awkward/array/RecordArray.h"
#include "awkward/array/Record.h"
#include "awkward/Slice.h"

namespace ak = awkward;
using namespace awsim;

namespace {
  // one ordered log of every seam call of the run (cache and generators interleaved), for the trace and for the
  // "no set after a failed generation" check
  std::stringstream seam_log_;
  // writing to the log is harness bookkeeping: its allocations do not count for the allocation seam
  struct SLog {
    AllocPause pause;
    template <typename T> SLog& operator<<(const T& x) { seam_log_ << x; return *this; }
  };

  // ---------------------------------------------------------------------------------------------- cache
  // The simulator scripts every answer: get_script[k] decides the k-th get() (0 = answer from the store,
  // 1 = the entry was evicted just before this get), set_script[k] the k-th set() (0 = store, 1 = lose it).
  // When a script is exhausted the answer is 0.  Every call is logged for the trace.
  class SimCache: public ak::ArrayCache {
  public:
    SimCache(): broken_(false), ngets_(0), nsets_(0) { }
    ak::ContentPtr get(const std::string& key) const override {
      long k = ngets_++;
      int act = k < (long)get_script_.size() ? get_script_[(size_t)k] : 0;
      if (broken_) { SLog() << "cache get " << key << " broken\n"; return ak::ContentPtr(nullptr); }
      if (act == 1) {
        bool had = store_.erase(key) > 0;
        SLog() << "cache get " << key << (had ? " evicted\n" : " miss\n");
        return ak::ContentPtr(nullptr);
      }
      auto it = store_.find(key);
      if (it == store_.end()) { SLog() << "cache get " << key << " miss\n"; return ak::ContentPtr(nullptr); }
      SLog() << "cache get " << key << " hit\n";
      return it->second;
    }
    void set(const std::string& key, const ak::ContentPtr& value) override {
      long k = nsets_++;
      int act = k < (long)set_script_.size() ? set_script_[(size_t)k] : 0;
      if (broken_  ||  act == 1) { SLog() << "cache set " << key << " lost\n"; return; }
      store_[key] = value;
      SLog() << "cache set " << key << " stored\n";
    }
    bool is_broken() const override { return broken_; }
    const std::string tostring_part(const std::string& indent, const std::string& pre, const std::string& post) const override {
      return indent + pre + "<SimCache/>" + post;
    }
    mutable std::map<std::string, ak::ContentPtr> store_;
    std::vector<int> get_script_;
    std::vector<int> set_script_;
    bool broken_;
    mutable long ngets_;
    long nsets_;
  };

  // ---------------------------------------------------------------------------------------------- generator
  struct GenState {
    ak::ContentPtr truth;
    ak::ContentPtr wrong;     // a different but plausible layout (may be null)
    ak::ContentPtr longer;    // longer than the truth (may be null)
    std::vector<int> script;  // per generate() call: 0 ok, 1 throw, 2 short, 3 wrong form, 4 long, 5 short and wrong form
    long calls;
    std::string key;
    GenState(): calls(0) { }
  };

  class SimGenerator: public ak::ArrayGenerator {
  public:
    SimGenerator(const ak::FormPtr& form, int64_t length, const std::shared_ptr<GenState>& st)
        : ak::ArrayGenerator(form, length), st_(st) { }
    const ak::ContentPtr generate() const override {
      long k = st_->calls++;
      int act = k < (long)st_->script.size() ? st_->script[(size_t)k] : 0;
      switch (act) {
        case 1:
          SLog() << "gen " << st_->key << " throw\n";
          throw std::runtime_error("simulated generator failure");
        case 2:
          if (st_->truth->length() > 0) {
            SLog() << "gen " << st_->key << " short\n";
            return st_->truth->getitem_range_nowrap(0, st_->truth->length() - 1);
          }
          break;
        case 3:
          if (st_->wrong.get() != nullptr) { SLog() << "gen " << st_->key << " wrong_form\n"; return st_->wrong; }
          break;
        case 4:
          if (st_->longer.get() != nullptr) { SLog() << "gen " << st_->key << " long\n"; return st_->longer; }
          break;
        case 5:
          // too short AND of another Form (e.g. a reader that answers with a truncated block of the wrong column)
          if (st_->wrong.get() != nullptr  &&  st_->truth->length() > 0  &&  st_->wrong->length() > 0) {
            int64_t n = std::min(st_->truth->length(), st_->wrong->length()) - 1;
            SLog() << "gen " << st_->key << " short_wrong_form\n";
            return st_->wrong->getitem_range_nowrap(0, n);
          }
          break;
        default:
          break;
      }
      SLog() << "gen " << st_->key << " ok\n";
      return st_->truth;
    }
    void caches(std::vector<ak::ArrayCachePtr>& out) const override { }
    const std::string tostring_part(const std::string& indent, const std::string& pre, const std::string& post) const override {
      return indent + pre + "<SimGenerator/>" + post;
    }
    const std::shared_ptr<ak::ArrayGenerator> shallow_copy() const override {
      return std::make_shared<SimGenerator>(form_, length_, st_);
    }
    const std::shared_ptr<ak::ArrayGenerator> with_form(const ak::FormPtr& form) const override {
      return std::make_shared<SimGenerator>(form, length_, st_);
    }
    const std::shared_ptr<ak::ArrayGenerator> with_length(int64_t length) const override {
      return std::make_shared<SimGenerator>(form_, length, st_);
    }
    bool referentially_equal(const ak::ArrayGeneratorPtr& other) const override {
      const SimGenerator* raw = dynamic_cast<const SimGenerator*>(other.get());
      return raw != nullptr  &&  raw->st_.get() == st_.get();
    }
    std::shared_ptr<GenState> st_;
  };

  struct GenHandle {
    std::shared_ptr<GenState> st;
    ak::ArrayGeneratorPtr gen;
  };

  // ---------------------------------------------------------------------------------------------- materialised twin
  // "The materialised array" of property C18, built by the simulator without touching a seam: the same tree of nodes
  // with every VirtualArray replaced by what its generator stands for - the truth of a SimGenerator, or the slice of
  // the (materialised) array that a SliceGenerator defers. No cache is asked and no generator is called.
  ak::ContentPtr materialise(const ak::ContentPtr& c);

  template <typename T>
  bool mat_list(const ak::ContentPtr& c, ak::ContentPtr& out) {
    if (const ak::ListArrayOf<T>* a = dynamic_cast<const ak::ListArrayOf<T>*>(c.get())) {
      out = std::make_shared<ak::ListArrayOf<T>>(a->identities(), a->parameters(), a->starts(), a->stops(),
                                                 materialise(a->content()));
      return true;
    }
    if (const ak::ListOffsetArrayOf<T>* a = dynamic_cast<const ak::ListOffsetArrayOf<T>*>(c.get())) {
      out = std::make_shared<ak::ListOffsetArrayOf<T>>(a->identities(), a->parameters(), a->offsets(),
                                                       materialise(a->content()));
      return true;
    }
    return false;
  }

  template <typename T, bool OPT>
  bool mat_indexed(const ak::ContentPtr& c, ak::ContentPtr& out) {
    if (const ak::IndexedArrayOf<T, OPT>* a = dynamic_cast<const ak::IndexedArrayOf<T, OPT>*>(c.get())) {
      out = std::make_shared<ak::IndexedArrayOf<T, OPT>>(a->identities(), a->parameters(), a->index(),
                                                         materialise(a->content()));
      return true;
    }
    return false;
  }

  template <typename T, typename I>
  bool mat_union(const ak::ContentPtr& c, ak::ContentPtr& out) {
    if (const ak::UnionArrayOf<T, I>* a = dynamic_cast<const ak::UnionArrayOf<T, I>*>(c.get())) {
      ak::ContentPtrVec contents;
      for (auto x : a->contents()) contents.push_back(materialise(x));
      out = std::make_shared<ak::UnionArrayOf<T, I>>(a->identities(), a->parameters(), a->tags(), a->index(), contents);
      return true;
    }
    return false;
  }

  // what v->array() returns, computed without asking a cache or calling a generator: the truth of a SimGenerator
  // (inner VirtualArrays still in it), or exactly what SliceGenerator::generate() computes from its content
  ak::ContentPtr resolve(const ak::VirtualArray* v) {
    ak::ArrayGeneratorPtr g = v->generator();
    if (const SimGenerator* sg = dynamic_cast<const SimGenerator*>(g.get())) {
      // (a generator may produce more than it declares: the array is what was declared)
      if (g->length() >= 0  &&  g->length() < sg->st_->truth->length()) {
        return sg->st_->truth->getitem_range_nowrap(0, g->length());
      }
      return sg->st_->truth;
    }
    if (const ak::SliceGenerator* sl = dynamic_cast<const ak::SliceGenerator*>(g.get())) {
      ak::ContentPtr base = sl->content();
      if (const ak::VirtualArray* inner = dynamic_cast<const ak::VirtualArray*>(base.get())) {
        base = resolve(inner);
      }
      ak::Slice slice = sl->slice();
      ak::SliceRange* range = slice.length() == 1 ? dynamic_cast<ak::SliceRange*>(slice.head().get()) : nullptr;
      if (range != nullptr  &&  range->step() == 1) {
        return base->getitem_range(range->start(), range->stop());
      }
      return base->getitem(slice);
    }
    throw HarnessError("materialise: VirtualArray with an unknown generator class");
  }

  ak::ContentPtr materialise(const ak::ContentPtr& c) {
    ak::ContentPtr out;
    if (const ak::VirtualArray* v = dynamic_cast<const ak::VirtualArray*>(c.get())) {
      // like ak.materialized: take what the VirtualArray generates, then go on replacing inside it
      return materialise(resolve(v));
    }
    if (dynamic_cast<const ak::NumpyArray*>(c.get())  ||  dynamic_cast<const ak::EmptyArray*>(c.get())) {
      return c;
    }
    if (const ak::RegularArray* a = dynamic_cast<const ak::RegularArray*>(c.get())) {
      return std::make_shared<ak::RegularArray>(a->identities(), a->parameters(), materialise(a->content()), a->size(),
                                                a->length());
    }
    if (mat_list<int32_t>(c, out)  ||  mat_list<uint32_t>(c, out)  ||  mat_list<int64_t>(c, out)) return out;
    if (mat_indexed<int32_t, false>(c, out)  ||  mat_indexed<uint32_t, false>(c, out)  ||
        mat_indexed<int64_t, false>(c, out)  ||  mat_indexed<int32_t, true>(c, out)  ||
        mat_indexed<int64_t, true>(c, out)) return out;
    if (const ak::ByteMaskedArray* a = dynamic_cast<const ak::ByteMaskedArray*>(c.get())) {
      return std::make_shared<ak::ByteMaskedArray>(a->identities(), a->parameters(), a->mask(), materialise(a->content()),
                                                   a->valid_when());
    }
    if (const ak::BitMaskedArray* a = dynamic_cast<const ak::BitMaskedArray*>(c.get())) {
      return std::make_shared<ak::BitMaskedArray>(a->identities(), a->parameters(), a->mask(), materialise(a->content()),
                                                  a->valid_when(), a->length(), a->lsb_order());
    }
    if (const ak::UnmaskedArray* a = dynamic_cast<const ak::UnmaskedArray*>(c.get())) {
      return std::make_shared<ak::UnmaskedArray>(a->identities(), a->parameters(), materialise(a->content()));
    }
    if (mat_union<int8_t, int32_t>(c, out)  ||  mat_union<int8_t, uint32_t>(c, out)  ||
        mat_union<int8_t, int64_t>(c, out)) return out;
    if (const ak::RecordArray* a = dynamic_cast<const ak::RecordArray*>(c.get())) {
      ak::ContentPtrVec contents;
      for (auto x : a->contents()) contents.push_back(materialise(x));
      return std::make_shared<ak::RecordArray>(a->identities(), a->parameters(), contents, a->recordlookup(), a->length());
    }
    if (const ak::Record* r = dynamic_cast<const ak::Record*>(c.get())) {
      ak::ContentPtr arr = materialise(r->array()->shallow_copy());
      return std::make_shared<ak::Record>(std::dynamic_pointer_cast<const ak::RecordArray>(arr), r->at());
    }
    throw HarnessError("materialise: unknown node class " + c->classname());
  }
}

extern "C" {
  long aws_cache_new() {
    AWS_TRY
    return put(K_CACHE, std::make_shared<SimCache>());
    AWS_CATCH(0)
  }

  // which: 0 get script, 1 set script
  int aws_cache_script(long h, int which, const int* script, int n) {
    AWS_TRY
    auto c = get<SimCache>(h, K_CACHE);
    std::vector<int> v(script, script + n);
    if (which == 0) c->get_script_ = v; else c->set_script_ = v;
    return 1;
    AWS_CATCH(0)
  }

  int aws_cache_broken(long h, int broken) {
    AWS_TRY
    get<SimCache>(h, K_CACHE)->broken_ = broken != 0;
    return 1;
    AWS_CATCH(0)
  }

  // spontaneous eviction between operations; key "" = everything. Returns how many entries went.
  long aws_cache_evict(long h, const char* key) {
    AWS_TRY
    auto c = get<SimCache>(h, K_CACHE);
    long n = 0;
    if (key == nullptr  ||  key[0] == 0) { n = (long)c->store_.size(); c->store_.clear(); }
    else n = (long)c->store_.erase(std::string(key));
    SLog() << "cache evict " << (key ? key : "") << " " << n << "\n";
    return n;
    AWS_CATCH(-1)
  }

  // the ordered seam log of the run since the last call (cleared on read)
  long aws_seam_log(char* out, long cap) {
    AWS_TRY
    std::string s = seam_log_.str();
    long need = copy_out(s, out, cap);
    if (need < cap) { seam_log_.str(""); seam_log_.clear(); }
    return need;
    AWS_CATCH(-1)
  }

  long aws_cache_keys(long h, char* out, long cap) {
    AWS_TRY
    auto c = get<SimCache>(h, K_CACHE);
    std::string s;
    for (auto& kv : c->store_) { s += kv.first; s.push_back(','); }
    return copy_out(s, out, cap);
    AWS_CATCH(-1)
  }

  long aws_gen_new(long truth, int declare_form, int declare_length, long wrong, long longer, const char* key) {
    AWS_TRY
    auto st = std::make_shared<GenState>();
    st->key = key;
    st->truth = get<ak::Content>(truth, K_CONTENT);
    if (wrong != 0) st->wrong = get<ak::Content>(wrong, K_CONTENT);
    if (longer != 0) st->longer = get<ak::Content>(longer, K_CONTENT);
    ak::FormPtr form(nullptr);
    if (declare_form) form = st->truth->form(true);
    int64_t length = declare_length ? st->truth->length() : -1;
    auto gh = std::make_shared<GenHandle>();
    gh->st = st;
    gh->gen = std::make_shared<SimGenerator>(form, length, st);
    return put(K_GEN, gh);
    AWS_CATCH(0)
  }

  // the Form the generator declares is taken from another array (e.g. the same record with its fields in another order)
  int aws_gen_declare_form_of(long h, long content) {
    AWS_TRY
    auto gh = get<GenHandle>(h, K_GEN);
    ak::FormPtr form = get<ak::Content>(content, K_CONTENT)->form(true);
    gh->gen = std::make_shared<SimGenerator>(form, gh->gen->length(), gh->st);
    return 1;
    AWS_CATCH(0)
  }

  // the generator declares another length than its truth has (fewer items: every generation is "too long")
  int aws_gen_declare_length(long h, long length) {
    AWS_TRY
    auto gh = get<GenHandle>(h, K_GEN);
    gh->gen = std::make_shared<SimGenerator>(gh->gen->form(), (int64_t)length, gh->st);
    return 1;
    AWS_CATCH(0)
  }

  int aws_gen_script(long h, const int* script, int n) {
    AWS_TRY
    get<GenHandle>(h, K_GEN)->st->script = std::vector<int>(script, script + n);
    return 1;
    AWS_CATCH(0)
  }

  long aws_gen_calls(long h) {
    AWS_TRY
    return get<GenHandle>(h, K_GEN)->st->calls;
    AWS_CATCH(-1)
  }

  // sets the script position so that the next generate() uses script[pos] (faults are placed relative to "now")
  int aws_gen_script_at(long h, const int* script, int n) {
    AWS_TRY
    auto st = get<GenHandle>(h, K_GEN)->st;
    st->script.assign((size_t)st->calls, 0);
    st->script.insert(st->script.end(), script, script + n);
    return 1;
    AWS_CATCH(0)
  }

  long aws_virtual(long gen, long cache, const char* key) {
    AWS_TRY
    auto gh = get<GenHandle>(gen, K_GEN);
    ak::ArrayCachePtr c(nullptr);
    if (cache != 0) c = get<SimCache>(cache, K_CACHE);
    ak::ContentPtr out = std::make_shared<ak::VirtualArray>(ak::Identities::none(), ak::util::Parameters(), gh->gen, c,
                                                            std::string(key));
    return put(K_CONTENT, out);
    AWS_CATCH(0)
  }

  long aws_materialise(long h) {
    AWS_TRY
    ak::ContentPtr c = get<ak::Content>(h, K_CONTENT);
    return put(K_CONTENT, materialise(c));
    AWS_CATCH(0)
  }

  // ---------------------------------------------------------------------------------------------- partitions
  long aws_part(const long* parts, const long* stops, int n) {
    AWS_TRY
    ak::ContentPtrVec ps;
    std::vector<int64_t> st;
    for (int i = 0;  i < n;  i++) { ps.push_back(get<ak::Content>(parts[i], K_CONTENT)); st.push_back((int64_t)stops[i]); }
    ak::PartitionedArrayPtr out = std::make_shared<ak::IrregularlyPartitionedArray>(ps, st);
    return put(K_PART, out);
    AWS_CATCH(0)
  }

  // what: 0 getitem_at(i) -> content handle; 1 getitem_range(start, stop, step) -> part handle;
  //       2 repartition(stops...) -> part handle; 3 partition(i) -> content handle
  long aws_part_op(long h, int what, const long* iargs, int ni) {
    AWS_TRY
    auto p = get<ak::PartitionedArray>(h, K_PART);
    switch (what) {
      case 0: return put(K_CONTENT, p->getitem_at((int64_t)iargs[0]));
      case 1: return put(K_PART, p->getitem_range((int64_t)iargs[0], (int64_t)iargs[1], (int64_t)iargs[2]));
      case 2: {
        std::vector<int64_t> st;
        for (int i = 0;  i < ni;  i++) st.push_back((int64_t)iargs[i]);
        return put(K_PART, p->repartition(st));
      }
      case 3: return put(K_CONTENT, p->partition((int64_t)iargs[0]));
      default: throw HarnessError("aws_part_op: unknown selector");
    }
    AWS_CATCH(0)
  }

  // what: 0 walker dump of all partitions as one list, 1 tojson, 2 "numpartitions;stop,stop,..;length", 3 tostring
  long aws_part_text(long h, int what, char* out, long cap) {
    AWS_TRY
    auto p = get<ak::PartitionedArray>(h, K_PART);
    std::string s;
    if (what == 0) {
      s.push_back('[');
      bool first = true;
      for (int64_t i = 0;  i < p->numpartitions();  i++) {
        std::string part;
        if (p->partition(i)->length() == 0) continue;      // nothing to add; (before 81490fd such a partition could even have the items' type)
        walk(p->partition(i).get(), part);      // "[a,b,c]"
        if (part.empty()  ||  part[0] != '[') {
          throw WalkError("walker: a partition is not an array: " + part.substr(0, 60));
        }
        if (part.size() > 2) {
          if (!first) s.push_back(',');
          first = false;
          s.append(part, 1, part.size() - 2);
        }
      }
      s.push_back(']');
    }
    else if (what == 1) s = p->tojson(false, -1);
    else if (what == 2) {
      std::stringstream ss;
      ss << p->numpartitions() << ";";
      for (int64_t i = 0;  i < p->numpartitions();  i++) ss << p->stop(i) << ",";
      ss << ";" << p->length();
      s = ss.str();
    }
    else s = p->tostring();
    return copy_out(s, out, cap);
    AWS_CATCH(-1)
  }
}
